"""C16 - Poisson solvers reproduce Coulomb potentials of Gaussian charges and are linear."""

from __future__ import annotations

import math
import zlib

import numpy as np

from gridrv import core, instrument
from gridrv.oracles import poisson_ref_c16 as ref
from gridrv.oracles import sph

PROP = "C16"
TITLE = "Poisson solvers reproduce Coulomb potentials of Gaussian charges and are linear"
REQUIRED_HOOKS = [
    "poisson.solve_poisson_bvp",
    "poisson.solve_poisson_ivp",
    "poisson.interpolate_laplacian",
    "robust_poisson.solve_poisson_robust",
    "coulomb.coulomb_potential",
    "split2:empty-fit-before-a-retaining-atom",
]
REQUIRED_FAMILIES = [
    "bvp-centred",
    "bvp-offcentre",
    "bvp-aniso",
    "bvp-mol",
    "ivp",
    "linearity",
    "laplacian",
    "robust-route",
    "robust-exact-core",
    "robust-smooth",
    "weak-density",
    "robust-depleted",
    "far-field",
    "core-model-data",
    "grid-constructors",
]
BUDGET = {"quick": 1200, "thorough": 7200}
MAX_DISCARD_FRACTION = 0.05

# tolerances (statement / DESIGN.md C16) -------------------------------------------------------------
TOL_ACC = 1e-2  # x sum|c|   : accuracy the repository documents and tests to
TOL_LIN = 1e-3  # x scale    : linearity
TOL_LAP = 1e-2  # x max(1, max|4 pi rho|)
TOL_ROUTE = 1e-9  # x max(1, scale) : robust == core potential + BVP(residual)
TOL_CORE = 1e-8  # x max(1, core charge) : density == core model
TOL_WEAK = 1e-2  # x sum|c| : V[lam rho]/lam against V[rho] and against the truth, lam in [1e-6, 1e-4] (worst observed 3.7e-5)
TOL_FAR = 1e-2  # x scale : r |V - V_exact| beyond the last radial shell (effective-charge error; worst observed 6e-5)
TOL_FIT = 1e-10  # split-2: density of the fitted Gaussians (as passed to coulomb_potential) == rho - core - residual handed to the BVP
TOL_COREPOT = 1e-11  # library coulomb_potential(core, s-type only) vs own erf sum (relative to core charge)

RULE = (
    "One case = one density on one freshly built grid, solved by the REAL solver(s) and compared at 300 random points "
    "(log-uniform radius in [0.05, 8] about the centre / the nuclei; IVP: 0.3..100) with an independent reference. "
    "Families: bvp-centred (1-3 normalised s Gaussians on the centre, 9 radial grid/transform kinds x include_origin x "
    "remove_large_pts, degrees 6-22), bvp-offcentre (Gaussians displaced by |d| sqrt(a) <= 0.5, degree >= 14), bvp-aniso "
    "(explicit r^l e^{-a r^2} Y_lm components, l = 1..6, reference = radial Green's function by quadrature), bvp-mol (2-3 "
    "centres, Becke weights, Gaussians on every nucleus), ivp (spherical densities inside the stable envelope), linearity "
    "(V[a rho1 + b rho2] against a V[rho1] + b V[rho2], BVP centred/anisotropic and IVP), laplacian (interpolate_laplacian "
    "of the analytic potential against -4 pi rho at grid points and random points, incl. l>0), robust-route (robust solver "
    "against coulomb_potential(core) + solve_poisson_bvp(residual) recomposed by the monitor, the residual handed to the "
    "BVP solver observed through the hook), robust-exact-core (density == shipped core model, split2 on/off, atoms and "
    "molecules), robust-smooth (robust against plain solver and analytic truth, split2 on/off). Discrete choices are drawn "
    "in cases() from (tier, seed); exponents, coefficients, displacements, geometries from the per-case generator. "
    "Every run contains each of the 9 radial kinds, four centred solves and one linearity case on a short radial range "
    "(remove_large_pts=10, where the l=0 boundary value matters), a dipole and a quadrupole component, one mixed H-X molecule "
    "at degree 22 and molecular robust cases; thorough adds 8 anisotropic solves with the DEFAULT options (family "
    "bvp-aniso-default-options, not required, documents non-convergence). "
    "weak-density: off-centre / anisotropic / molecular densities at total charge lam in [1e-6, 1e-4] (three cases per run at "
    "1e-6..2e-6): V[lam rho]/lam against V[rho] and, on atom grids, against the exact potential. All robust families also "
    "evaluate the returned potential EXACTLY at the nuclei and 1e-13 / 1e-10 away; a post-condition on coulomb_potential "
    "(every call in the process) compares the closed-form part with the monitor's own erf sum there. "
    "robust-depleted: 2-4 centre molecules (atom order: depleted site first / middle / both / random) whose depleted sites carry zero, "
    "tiny or negative density so that their split-2 NNLS fit retains nothing (reached >= 2 x per quick run, required hook), split2 off "
    "and on, decided by the recomposition identity observed at the public functions (residual handed to solve_poisson_bvp == rho - core "
    "- density of the Gaussians passed to coulomb_potential; robust == core + fitted + BVP part) and by accuracy. far-field: radial "
    "grids of finite range (LinearFinite, Knowles, HandyMod), points at 1.001 / 1.1 (Knowles: 3, 30, 100) x the last shell, BVP, robust "
    "and IVP: r V(r) == total charge. Every element of the shipped core-model file is an atom in a route and in a smooth case of every "
    "run and occurs in molecules; core-model-data checks the file against the library loader / closed form and for plausibility. "
    "Two of every three cases of EVERY family build their AtomGrid / MolGrid with a seeded per-shell random rotation of the angular "
    "grids (rotate != 0; drawn from a stream separate from the density's). grid-constructors: MolGrid.from_size / from_pruned / "
    "from_preset('fine') with their DEFAULT rotate (37, checked) and AtomGrid.from_pruned / from_preset / sizes= with a seeded rotate, "
    "radial grid supplied by the harness, densities aspherical about every centre (Gaussians on the nuclei plus one in the bond; "
    "displaced Gaussians), BVP and robust solver against the erf potential. "
    "A case is non-trivial when at least one solve converged and was compared; non-convergence reported by the library "
    "(ValueError 'didn't converge') discards the case."
)
ASSUMPTIONS = [
    "accuracy threshold 1e-2 x sum|c| (normalised Gaussians) as documented/tested by the repository; anisotropic components are "
    "normalised to unit peak potential so that the same threshold applies",
    "decided envelope (resolution): exponents 0.15..8 (0.1..1 on Gauss-Laguerre/identity), evaluation radii 0.05..8; "
    "include_origin=False only on radial grids whose first node is <= 1e-5 (the solver then imposes u(r0)=0, error r0 V(0)/r)",
    "decided envelope (anisotropic / off-centre / molecular densities): include_origin=False, or include_origin=True with ode tol 1e-4; "
    "remove_large_pts >= 1e3 or finite radial range >= 50 (the l>0 far-field condition u=0 is imposed at the last node). With the r=0 "
    "node and the default tol 1e-6 scipy.solve_bvp mostly exceeds max_nodes on l=1 components (library raises ValueError) - "
    "observed, not decided",
    "decided envelope (molecular): nearest-neighbour distances 1.4..3.0, exponents 0.4..3; angular degree 14 when all atoms have similar Becke radii "
    "(all H, or C/N/O), degree >= 22 when H is mixed with C/N/O (probe: heteronuclear H-X at degree 14 reaches 4e-3 x sum|c|, "
    "degree 22 stays below 6e-4)",
    "IVP envelope (only stable one found): LinearFiniteRTransform(1e-3,1e3) of a >=3000-point trapezoid, r_interval=(1e3,1e-3), "
    "exponents 0.05..0.5, DOP853/RK45, evaluation radii 0.3..100; LSODA (error 9e-3) and Becke radial grids are outside",
    "solve_ode_bvp draws its initial guess from numpy's global RNG; the harness seeds it per case",
    "robust solver on molecules: smooth = exponents 0.3..1.6 (atoms: 0.3..3), charges 0.5..4 per centre; scale of the robust clauses = "
    "sum|c| + total core charge (the numerical part solves rho - core)",
    "weak densities: decided for charge scales 1e-6..1e-4 on Clenshaw-Curtis/Becke, HandyMod, Handy and (ode tol 1e-4) Gauss-Legendre/Becke "
    "grids, where the measured deviation of V[lam rho]/lam from V[rho] on the unchanged tree is <= 3.7e-5 over 4 global-RNG seeds "
    "(tolerance 1e-2 = documented accuracy, >= 270 x); Simpson/Becke grids (seed-dependent noise 4e-5 at 1e-6, 4e-3 at 1e-8) and "
    "scales below 1e-6 are NOT decided; comparison with the exact potential only where the base error is <= 4e-5 (Clenshaw-Curtis with "
    "first node 1e-6, Gauss-Legendre/Becke with origin node; not molecules, HandyMod, Handy, first node 1e-5). Strong densities: charge factors 1e2..2e3 (>= 1e4 the "
    "library frequently reports non-convergence)",
    "points exactly on / within 1e-10 of a grid centre: only the closed-form part (coulomb_potential) and the robust potential for "
    "density == core model are decided there. solve_poisson_bvp's interpolant returns exactly 0 for |r| < 1e-300 by construction "
    "(so the robust potential AT a nucleus is the analytic part only) and u(r)/r is rounding noise/r for r <= 1e-10 (5e-3 at 1e-13); "
    "solve_poisson_ivp is not defined below the lower end of r_interval (10 % error at r <= 1e-4) - observed, not decided",
    "beyond the last radial shell only spherical densities are decided (l>0: the solver imposes u(r_last)=0, far field lost by construction), "
    "and only up to 1.1 x r_last except Knowles (any distance): the unchanged tree's extrapolation reaches 1.2e-4 at 3 x and 6 at 100 x on "
    "LinearFinite grids; IVP beyond 1.1 x r_interval[0] is undefined (garbage at 3 x)",
    "split-2 accuracy with depleted sites: exponents 0.3..1.2, occupied sites carry core charge + 1.5..3; worst observed 1.5e-3 x scale",
    "core-model plausibility: density of the model at the nucleus within a factor 3000 of min(Z,2) Z^3/pi (observed 0.93..1.03); a "
    "data-level clause on 5 deterministic numbers, stated from the module's purpose (removing the nuclear cusp)",
    "grids from the public constructors: presets 'fine' (coarse/medium reach 9e-4 / 6e-4 x sum|c| for H, left out for margin), "
    "from_size 110 / 194, from_pruned sectors (0.5, 1, 2) x radius 1 with degrees (10, 14, 18, 14); worst observed 3e-4",
    "shipped core parameters contain s functions only (checked at start-up), so the C17 p-type formula defect cannot enter",
]
LEVEL_TEXT = "Exploration: held on every executed density/grid/option combination inside the stated envelope; hundreds of solves, not a proof."
TECHNIQUE = "runtime monitoring: post-conditions on the returned potentials against analytic / Green's-function reference models, linearity and route-equality relations, hooks on the four public solvers"

NPTS = 300

# ---------------------------------------------------------------------------------------------------
# radial grid / transform kinds


def make_radial(spec):
    """Return (rgrid, transform_for_solver, r0, rmax)."""
    from grid.onedgrid import ClenshawCurtis, GaussLaguerre, GaussLegendre, Simpson, Trapezoidal
    from grid.rtransform import (
        BeckeRTransform,
        HandyModRTransform,
        HandyRTransform,
        IdentityRTransform,
        InverseRTransform,
        KnowlesRTransform,
        LinearFiniteRTransform,
    )

    k, n = spec["kind"], spec["n"]
    if k == "gl-becke":
        oned, tf = GaussLegendre(n), BeckeRTransform(spec["rmin"], spec["R"])
    elif k == "cc-becke":
        oned, tf = ClenshawCurtis(n), BeckeRTransform(spec["rmin"], spec["R"], trim_inf=True)
    elif k == "simpson-becke":
        oned, tf = Simpson(n), BeckeRTransform(spec["rmin"], spec["R"], trim_inf=True)
    elif k == "trap-becke":
        oned, tf = Trapezoidal(n), BeckeRTransform(spec["rmin"], spec["R"], trim_inf=True)
    elif k == "glag-identity":
        oned, tf = GaussLaguerre(n), IdentityRTransform()
    elif k == "gl-linfinite":
        oned, tf = GaussLegendre(n), LinearFiniteRTransform(spec["rmin"], spec["rmax"])
    elif k == "trap-linfinite":
        oned, tf = Trapezoidal(n), LinearFiniteRTransform(spec["rmin"], spec["rmax"])
    elif k == "gl-handymod":
        oned, tf = GaussLegendre(n), HandyModRTransform(0.0, spec["rmax"], 2)
    elif k == "gl-handy":
        oned, tf = GaussLegendre(n), HandyRTransform(0.0, spec["R"], 2)
    elif k == "gl-knowles":
        oned, tf = GaussLegendre(n), KnowlesRTransform(0.0, spec["R"], 2)
    else:
        raise core.MonitorError(f"unknown radial kind {k}")
    rg = tf.transform_1d_grid(oned)
    return rg, InverseRTransform(tf), float(np.min(rg.points)), float(np.max(rg.points))


def _pick(rng, seq):
    return seq[int(rng.integers(len(seq)))]


SPH_KINDS = ["gl-becke", "cc-becke", "simpson-becke", "trap-becke", "glag-identity", "gl-linfinite", "gl-handymod", "gl-handy", "gl-knowles"]


def _spherical_config(rng, kind=None, short_range=False):
    """Radial kind + solver options admissible for centred spherical densities.

    ``short_range``: force remove_large_pts=10 where the kind has that option (the l=0 boundary value u(r_last) = total
    charge / Y00 only matters when r_last is small: its influence on V is ~ 1/r_last)."""
    if kind is None:
        kind = _pick(rng, ["gl-becke", "gl-becke"] + SPH_KINDS)
    if kind == "gl-becke":
        spec = {"kind": kind, "n": _pick(rng, [80, 100, 120]), "rmin": _pick(rng, [1e-5, 1e-6]), "R": _pick(rng, [1.0, 1.5, 2.0])}
        opts = {"include_origin": True, "rlp": _pick(rng, [10.0, 30.0, 100.0, 1e6, 1e6, None])}
        arange = (0.15, 8.0)
    elif kind in ("cc-becke", "simpson-becke"):
        n = _pick(rng, [100, 120]) if kind == "cc-becke" else _pick(rng, [201, 251])
        spec = {"kind": kind, "n": n, "rmin": _pick(rng, [1e-5, 1e-6]), "R": _pick(rng, [1.0, 1.5])}
        opts = {"include_origin": bool(rng.integers(2)), "rlp": _pick(rng, [10.0, 100.0, 1e6])}
        arange = (0.15, 8.0)
    elif kind == "trap-becke":
        spec = {"kind": kind, "n": _pick(rng, [200, 250, 300]), "rmin": 0.0, "R": 1.5}
        opts = {"include_origin": bool(rng.integers(2)), "rlp": _pick(rng, [10.0, 30.0, 1e6])}
        arange = (0.15, 8.0)
    elif kind == "glag-identity":
        spec = {"kind": kind, "n": 100}
        opts = {"include_origin": True, "rlp": _pick(rng, [None, 1e6])}
        arange = (0.1, 1.0)
    elif kind == "gl-linfinite":
        spec = {"kind": kind, "n": 150, "rmin": 1e-5, "rmax": _pick(rng, [30.0, 40.0])}
        opts = {"include_origin": True, "rlp": _pick(rng, [None, 1e6])}
        arange = (0.15, 4.0)
    elif kind == "gl-handymod":
        spec = {"kind": kind, "n": _pick(rng, [100, 120]), "rmax": _pick(rng, [50.0, 60.0, 80.0])}
        opts = {"include_origin": False, "rlp": _pick(rng, [None, 1e6])}
        arange = (0.15, 4.0)
    elif kind == "gl-handy":
        spec = {"kind": kind, "n": _pick(rng, [100, 120]), "R": 1.5}
        opts = {"include_origin": False, "rlp": 1e6}
        arange = (0.15, 4.0)
    else:  # gl-knowles (finite range ~ 8 R)
        spec = {"kind": kind, "n": _pick(rng, [100, 120]), "R": _pick(rng, [1.5, 2.0])}
        opts = {"include_origin": False, "rlp": _pick(rng, [None, 1e6])}
        arange = (0.25, 4.0)
    if short_range and kind in ("gl-becke", "cc-becke", "simpson-becke", "trap-becke"):
        opts["rlp"] = 10.0
    return spec, opts, arange


def _aniso_config(rng, allow_origin_node):
    """Radial kind + options inside the envelope for densities with l>0 content."""
    kinds = ["cc-becke", "simpson-becke", "gl-handymod", "gl-handy"] + (["gl-becke-origin"] if allow_origin_node else [])
    kind = _pick(rng, kinds)
    if kind == "gl-becke-origin":
        spec = {"kind": "gl-becke", "n": 100, "rmin": 1e-5, "R": _pick(rng, [1.0, 1.5])}
        opts = {"include_origin": True, "rlp": _pick(rng, [None, 1e6]), "tol": 1e-4}
    elif kind in ("cc-becke", "simpson-becke"):
        n = _pick(rng, [100, 120]) if kind == "cc-becke" else _pick(rng, [201, 251])
        spec = {"kind": kind, "n": n, "rmin": _pick(rng, [1e-5, 1e-6]), "R": _pick(rng, [1.0, 1.5])}
        opts = {"include_origin": False, "rlp": 1e6}
    elif kind == "gl-handymod":
        spec = {"kind": kind, "n": _pick(rng, [100, 120]), "rmax": _pick(rng, [60.0, 80.0])}
        opts = {"include_origin": False, "rlp": _pick(rng, [None, 1e6])}
    else:
        spec = {"kind": kind, "n": _pick(rng, [100, 120]), "R": 1.5}
        opts = {"include_origin": False, "rlp": 1e6}
    return spec, opts


def _mol_config(rng):
    # (the node these rules put at the trimmed infinity r = 1e16 is cut off in _molgrid)
    kind = _pick(rng, ["cc-becke", "simpson-becke"])
    n = _pick(rng, [100, 120]) if kind == "cc-becke" else _pick(rng, [201, 251])
    return {"kind": kind, "n": n, "rmin": _pick(rng, [1e-5, 1e-6]), "R": _pick(rng, [1.0, 1.5])}, {"include_origin": False, "rlp": 1e6}


# ---------------------------------------------------------------------------------------------------
def cases(tier, seed):
    q = tier == "quick"
    rng = np.random.default_rng([seed, 16, 0 if q else 1])
    out = []

    def add(family, params, cost):
        out.append((family, params, float(cost)))

    # 1. centred spherical
    for k in range(14 if q else 196):
        # every run: each radial kind at least once (k < 9), four short-range solves (k = 0..3), then random kinds
        spec, opts, ar = _spherical_config(rng, kind=SPH_KINDS[k] if k < len(SPH_KINDS) else None, short_range=(k % 14 < 4))
        deg = _pick(rng, [6, 8, 10, 14] if q else [6, 8, 10, 14, 14, 18, 22])
        add("bvp-centred", {"k": k, "rad": spec, "opts": opts, "arange": list(ar), "degree": deg, "nterms": int(rng.integers(1, 4))}, 0.5 * (deg / 8.0) ** 2)
    # 2. off-centre
    for k in range(4 if q else 60):
        heavy = (not q) and k % 5 == 4
        spec, opts = _aniso_config(rng, allow_origin_node=heavy)
        if heavy and opts.get("tol") is None:
            spec, opts = {"kind": "gl-becke", "n": 100, "rmin": 1e-5, "R": 1.5}, {"include_origin": True, "rlp": 1e6, "tol": 1e-4}
        deg = _pick(rng, [14, 16] if q else [14, 16, 18, 22, 26, 29])
        cost = (30.0 if opts.get("tol") else 1.5) * (deg / 14.0) ** 2
        add("bvp-offcentre", {"k": k, "rad": spec, "opts": opts, "degree": deg, "nterms": int(rng.integers(1, 3)), "with_centred": bool(rng.integers(2))}, cost)
    # 3. explicit anisotropic components
    for k in range(6 if q else 120):
        node = (q and k == 0) or ((not q) and k % 6 == 5)
        spec, opts = _aniso_config(rng, allow_origin_node=False)
        lmin = 1
        if node:
            spec, opts = {"kind": "gl-becke", "n": 100, "rmin": 1e-5, "R": 1.5}, {"include_origin": True, "rlp": _pick(rng, [None, 1e6]), "tol": 1e-4}
            lmin = 2 if q else 1
        deg = _pick(rng, [8, 10, 12] if q else [8, 10, 12, 14, 18])
        lmax = min(deg // 2, 6)
        ncomp = int(rng.integers(1, 4))
        lms = []
        for _ in range(ncomp):
            l = int(rng.integers(lmin, lmax + 1))
            lms.append([l, int(rng.integers(-l, l + 1))])
        if k == 1:
            lms[0] = [1, int(rng.integers(-1, 2))]  # every run has a dipole component ...
        if k == 2:
            lms[0] = [2, int(rng.integers(-2, 3))]  # ... and a quadrupole
        cost = 12.0 if (node and any(l == 1 for l, _ in lms)) else (3.0 if node else 0.7)
        add("bvp-aniso", {"k": k, "rad": spec, "opts": opts, "degree": deg, "lm": lms, "with_s": bool(rng.integers(2))}, cost)
    # 3b. (thorough, not required) anisotropic density with the DEFAULT options: documents how often the library fails to converge
    for k in range(0 if q else 6):  # fewer than 10 cases even with the runner's second (python -O) pass: discards here are the point
        l = 1 if k < 2 else int(rng.integers(2, 5))
        add("bvp-aniso-default-options", {"k": k, "rad": {"kind": "gl-becke", "n": 100, "rmin": 1e-5, "R": 1.5}, "opts": {"include_origin": True, "rlp": 1e6}, "degree": 10, "lm": [[l, int(rng.integers(-l, l + 1))]], "with_s": False}, 150.0 if l == 1 else 4.0)
    # 4. molecules (Becke cells between H and a heavier atom are sharp: those need degree >= 22, see ASSUMPTIONS)
    for k in range(3 if q else 36):
        spec, opts = _mol_config(rng)
        nat = 2 if (q and k < 2) else int(rng.integers(2, 4))
        mixed = (k % 3 == 2)
        if mixed:
            atn = [1] + [int(_pick(rng, [1, 6, 7, 8])) for _ in range(nat - 2)] + [int(_pick(rng, [6, 7, 8]))]
            deg = 22 if q else _pick(rng, [22, 26])
        else:
            pool = _pick(rng, [[1], [6, 7, 8]])
            atn = [int(_pick(rng, pool)) for _ in range(nat)]
            deg = 14 if q else _pick(rng, [14, 14, 18, 22])
        add("bvp-mol", {"k": k, "rad": spec, "opts": opts, "degree": deg, "atnums": atn}, 1.6 * nat * (deg / 14.0) ** 2)
    # 5. IVP (spherical, stable envelope)
    for k in range(4 if q else 60):
        n = _pick(rng, [3000, 4000] if q else [3000, 4000, 5000, 6000])
        ode = _pick(rng, [None, None, {"method": "RK45"}, {"rtol": 1e-9, "atol": 1e-7}])
        add("ivp", {"k": k, "n": n, "degree": int(rng.integers(2, 9)), "nterms": int(rng.integers(1, 4)), "ode": ode}, 0.8 * n / 3000)
    # 6. linearity
    for k in range(5 if q else 75):
        kind = ["centred", "aniso", "ivp", "centred", "aniso"][k % 5]
        if kind == "centred":
            # k % 5 == 0: short radial range, where the l=0 boundary value (total charge, any sign) matters
            short = k % 5 == 0
            spec, opts, ar = _spherical_config(rng, kind=_pick(rng, ["gl-becke", "cc-becke", "simpson-becke", "trap-becke"]) if short else None, short_range=short)
            p = {"k": k, "solver": "bvp", "dens": "centred", "rad": spec, "opts": opts, "arange": list(ar), "degree": _pick(rng, [6, 8, 10])}
            cost = 1.5
        elif kind == "aniso":
            spec, opts = _aniso_config(rng, allow_origin_node=False)
            p = {"k": k, "solver": "bvp", "dens": "aniso", "rad": spec, "opts": opts, "degree": _pick(rng, [8, 10, 12])}
            cost = 2.5
        else:
            p = {"k": k, "solver": "ivp", "dens": "centred", "n": 3000, "degree": int(rng.integers(2, 7))}
            cost = 2.5
        add("linearity", p, cost)
    # 7. Laplacian of the interpolated analytic potential
    for k in range(5 if q else 75):
        if rng.integers(2):
            spec = {"kind": "trap-linfinite", "n": _pick(rng, [500, 600, 800]), "rmin": 1e-3, "rmax": _pick(rng, [12.0, 16.0])}
        else:
            spec = {"kind": "trap-becke", "n": _pick(rng, [1000, 1500]), "rmin": 1e-3, "R": 1.5}
        deg = _pick(rng, [6, 8, 10, 12])
        lmax = min(deg // 2, 5)
        lms = []
        for _ in range(int(rng.integers(0 if k % 2 else 1, 3))):
            l = int(rng.integers(1, lmax + 1))
            lms.append([l, int(rng.integers(-l, l + 1))])
        add("laplacian", {"k": k, "rad": spec, "degree": deg, "lm": lms, "nterms": int(rng.integers(1, 3))}, 1.0 + spec["n"] / 1000.0)
    # 7b. moderately weak densities (total charge 1e-6 .. 1e-4) with non-spherical content: homogeneity and accuracy
    for k in range(6 if q else 60):
        dens = ["off", "aniso", "mol"][k % 3]
        lam_hi = 2e-6 if k < 3 else 1e-4  # every run: one off-centre, one anisotropic, one molecular solve at charge scale 1e-6
        if dens == "mol":
            spec = {"kind": "cc-becke", "n": _pick(rng, [100, 120]), "rmin": _pick(rng, [1e-5, 1e-6]), "R": _pick(rng, [1.0, 1.5])}
            opts = {"include_origin": False, "rlp": 1e6}
            nat = int(rng.integers(2, 4))
            pool = _pick(rng, [[1], [6, 7, 8]])
            p = {"k": k, "dens": dens, "rad": spec, "opts": opts, "degree": 14, "atnums": [int(_pick(rng, pool)) for _ in range(nat)], "lam_hi": lam_hi}
            cost = 3.5 * nat
        else:
            kind = ["cc-becke", "gl-handymod", "cc-becke", "gl-handy", "gl-becke-origin"][(k // 3) % (2 if q else 5)]
            if kind == "cc-becke":
                spec = {"kind": kind, "n": _pick(rng, [100, 120]), "rmin": _pick(rng, [1e-6, 1e-6, 1e-5]) if k >= 3 else 1e-6, "R": _pick(rng, [1.0, 1.5])}
                opts = {"include_origin": False, "rlp": 1e6}
            elif kind == "gl-handymod":
                spec = {"kind": kind, "n": _pick(rng, [100, 120]), "rmax": _pick(rng, [60.0, 80.0])}
                opts = {"include_origin": False, "rlp": _pick(rng, [None, 1e6])}
            elif kind == "gl-handy":
                spec = {"kind": kind, "n": _pick(rng, [100, 120]), "R": 1.5}
                opts = {"include_origin": False, "rlp": 1e6}
            else:
                spec = {"kind": "gl-becke", "n": 100, "rmin": 1e-5, "R": _pick(rng, [1.0, 1.5])}
                opts = {"include_origin": True, "rlp": _pick(rng, [None, 1e6]), "tol": 1e-4}
            deg = _pick(rng, [10, 14, 16])
            lmax = min(deg // 2, 5)
            lms = [[int(l), int(rng.integers(-l, l + 1))] for l in rng.integers(1, lmax + 1, 2)]
            p = {"k": k, "dens": dens, "rad": spec, "opts": opts, "degree": deg, "lm": lms, "lam_hi": lam_hi}
            cost = 25.0 if opts.get("tol") else 2.0
        add("weak-density", p, cost)
    # 8-10. robust solver: EVERY supported element (list read from the shipped JSON) as an atom in route and smooth cases of every
    # run (exact-core cases are self-consistent with the data file by construction), and inside molecules
    zs = ref.elements()
    nz = len(zs)
    for k in range(max(4, nz + 1) if q else 48):
        mol = (k % (nz + 1) == nz)
        atn = [zs[k % (nz + 1)]] if not mol else [int(_pick(rng, [1, 6])), 1]
        add("robust-route", {"k": k, "atnums": atn, "degree": _pick(rng, [8, 10]) if not mol else 14, "mol": mol}, 5.0 if mol else 1.5)
    for k in range(6 if q else 60):
        mol = (k % 6 == 5)
        atn = [zs[k % nz]] if not mol else [zs[(k // 6) % nz], int(_pick(rng, [1, 6, 8]))]
        add("robust-exact-core", {"k": k, "atnums": atn, "degree": _pick(rng, [6, 8, 10]) if not mol else 10, "split2": bool(k % 2), "mol": mol}, 2.0 if mol else 0.8)
    for k in range(max(4, nz + 2) if q else 56):
        j = k % (nz + 2)
        mol = j >= nz
        if not mol:
            atn, deg = [zs[(j + 2) % nz]], _pick(rng, [8, 10])
        elif j == nz:
            atn, deg = [1, 1], 14
        else:  # heavier pair with similar Becke radii, both elements' cores in the density
            heavy = [z for z in zs if z > 1]
            atn, deg = [int(_pick(rng, heavy)), int(_pick(rng, heavy))], 14
            if 17 in atn and atn != [17, 17]:
                deg = 22
        add("robust-smooth", {"k": k, "atnums": atn, "degree": deg, "mol": mol}, (8.0 if mol else 2.5) * (deg / 14.0 if mol else 1.0) ** 2)
    # 11. multi-centre robust cases with electron-depleted sites (split-2 fit retains nothing there), atom order permuted
    for k in range(6 if q else 42):
        nat = [2, 2, 3, 3, 4, 2][k % 6] if q else int(rng.integers(2, 5))
        pool = [1] if k % 6 != 5 else _pick(rng, [[6, 7, 8], [1], [17], [6, 7, 8]])
        atn = [int(_pick(rng, pool)) for _ in range(nat)]
        nempty = 1 if nat == 2 else int(rng.integers(1, nat))
        # k % 6 == 0,1: empty site FIRST; 2: MIDDLE; 3: first and middle; others random positions
        if k % 6 in (0, 1):
            empty = [0]
        elif k % 6 == 2:
            empty = [1]
        elif k % 6 == 3:
            empty = [0, 1]
        else:
            empty = sorted(int(i) for i in rng.choice(nat, size=nempty, replace=False))
        add("robust-depleted", {"k": k, "atnums": atn, "empty": empty, "mode": _pick(rng, ["zero", "zero", "tiny", "negative"]), "far": bool(k % 6 < 3), "degree": 14}, 4.0 * nat)
    # 12. finite radial range: evaluation points beyond the last radial shell (far field Q/r)
    for k in range(6 if q else 48):
        what = ["bvp:gl-linfinite", "bvp:gl-knowles", "bvp:gl-handymod", "robust:gl-handymod", "ivp", "bvp:trap-linfinite", "robust:gl-linfinite"][k % (6 if q else 7)]
        solver, _, kind = what.partition(":")
        if kind == "gl-linfinite":
            spec, opts = {"kind": kind, "n": 150, "rmin": 1e-5, "rmax": _pick(rng, [25.0, 30.0, 40.0])}, {"include_origin": True, "rlp": _pick(rng, [None, 1e6])}
        elif kind == "trap-linfinite":
            spec, opts = {"kind": kind, "n": _pick(rng, [400, 500]), "rmin": 1e-3, "rmax": _pick(rng, [20.0, 25.0])}, {"include_origin": True, "rlp": 1e6}
        elif kind == "gl-knowles":
            spec, opts = {"kind": kind, "n": _pick(rng, [100, 120]), "R": _pick(rng, [1.5, 2.0])}, {"include_origin": False, "rlp": _pick(rng, [None, 1e6])}
        elif kind == "gl-handymod":
            spec, opts = {"kind": kind, "n": _pick(rng, [100, 120]), "rmax": _pick(rng, [50.0, 60.0, 80.0])}, {"include_origin": False, "rlp": _pick(rng, [None, 1e6])}
        else:
            spec, opts = {"kind": "trap-linfinite", "n": 3000, "rmin": 1e-3, "rmax": 1e3}, None
        add("far-field", {"k": k, "solver": solver, "rad": spec, "opts": opts, "degree": _pick(rng, [6, 8, 10]), "Z": int(zs[k % nz])}, 2.0)
    # 14. grids from the public constructors: MolGrid.from_preset / from_size / from_pruned with their DEFAULT rotate (37), AtomGrid
    # from_pruned / from_preset / sizes= with a seeded rotate; densities aspherical about every centre
    for k in range(5 if q else 35):
        ctor = ["mol.from_size", "mol.from_pruned", "mol.from_preset", "atom.from_pruned", "atom.from_preset", "atom.sizes", "mol.from_size"][k % (5 if q else 7)]
        nat = 2 if q else int(rng.integers(2, 4))
        pool = _pick(rng, [[1], [6, 7, 8]])
        p = {"k": k, "ctor": ctor, "atnums": [int(_pick(rng, pool)) for _ in range(nat)] if ctor.startswith("mol") else [int(_pick(rng, [1, 6, 8]))],
             "size": _pick(rng, [110, 110, 194]), "solver": "robust" if (ctor.startswith("atom") and k % 2) else "bvp",
             "rad": {"kind": "cc-becke", "n": _pick(rng, [100, 120]), "rmin": 1e-6, "R": _pick(rng, [1.0, 1.5])}}
        add("grid-constructors", p, (5.0 * nat * (2.0 if ctor == "mol.from_preset" else 1.0)) if ctor.startswith("mol") else 2.0)
    # 13. shipped core-model data, independent of the solvers
    add("core-model-data", {"k": 0}, 1.0)
    return out


# ---------------------------------------------------------------------------------------------------
_capture = {"on": False, "calls": [], "coul_on": False, "coul": []}


def setup(ctx):
    sph.self_test()
    ctx.count("oracle-selftest-worst-1e-18", int(ref.self_test() * 1e18))
    for z in ref.SYMBOL:
        if ref.core_params(z)[2]:
            raise RuntimeError(f"shipped core model of Z={z} has non-s entries {ref.core_params(z)[2]}: C16 exactness clauses need revisiting")
    import grid.poisson as gp
    import grid.robust_poisson as grp

    def post_callable(name):
        def post(res, exc, args, kwargs):
            if exc is None and not callable(res):
                ctx.fail("returns-callable", name, "not-callable")

        return post

    def post_bvp(res, exc, args, kwargs):
        if exc is None and not callable(res):
            ctx.fail("returns-callable", "solve_poisson_bvp", "not-callable")
        if _capture["on"] and exc is None:
            _capture["calls"].append((args, kwargs, res))

    import grid.coulomb as gc

    def post_coulomb(res, exc, args, kwargs):
        """Every call of the public closed-form routine (the robust solver's analytic part): s-type sum against the monitor's
        own erf sum, at whatever points the caller asked for - including points exactly on a centre."""
        if exc is not None:
            return
        names = ["points", "centers_s", "coeffs_s", "alphas_s", "centers_p", "coeffs_p", "alphas_p", "normalized"]
        b = dict(zip(names, args))
        b.update(kwargs)
        if _capture["coul_on"]:
            _capture["coul"].append({k: (np.array(v, dtype=float) if k in names[:4] and v is not None else v) for k, v in b.items()})
        if b.get("coeffs_p") is not None or b.get("centers_p") is not None:
            return  # p-type functions are C17's business (open finding); the robust solver never passes them
        pts = np.array(b["points"], dtype=float)
        cs, al = np.array(b["coeffs_s"], dtype=float), np.array(b["alphas_s"], dtype=float)
        ctr = np.array(b["centers_s"], dtype=float)
        if len(cs) == 0:
            return
        fac = np.ones(len(cs)) if b.get("normalized", True) else (np.pi / al) ** 1.5
        want = ref.gauss_potential(pts, cs * fac, al, ctr)
        scale = float(np.sum(np.abs(cs * fac) * np.maximum(1.0, 2.0 * np.sqrt(al / np.pi))))
        got = np.asarray(res, dtype=float)
        d = np.abs(got - want)
        err = float(np.max(d)) if np.all(np.isfinite(got)) and got.shape == want.shape else float("nan")
        i = int(np.nanargmax(d)) if np.any(np.isfinite(d)) else 0
        dist = float(np.min(np.linalg.norm(pts[i][None, :] - ctr, axis=1)))
        where = "on-centre" if dist < 1e-12 else ("near-centre" if dist < 1e-6 else "generic-point")
        ctx.check("robust-core-potential-analytic", "coulomb_potential(hook)", err / scale, TOL_COREPOT, sig=f"worst-at:{where}", detail={"max_abs_err": err, "scale": scale, "got": float(got.ravel()[i]) if got.size else None, "want": float(want[i]), "dist_to_centre": dist, "n_gauss": len(cs)})

    instrument.wrap_function(ctx, gc, "coulomb_potential", post_coulomb)
    instrument.wrap_function(ctx, gp, "solve_poisson_bvp", post_bvp)
    instrument.wrap_function(ctx, gp, "solve_poisson_ivp", post_callable("solve_poisson_ivp"))
    instrument.wrap_function(ctx, gp, "interpolate_laplacian", post_callable("interpolate_laplacian"))
    instrument.wrap_function(ctx, grp, "solve_poisson_robust", post_callable("solve_poisson_robust"))


# ---------------------------------------------------------------------------------------------------
# helpers


def _eval_points(rng, centers, n=NPTS, lo=0.05, hi=8.0):
    """Random points: log-uniform distance in [lo, hi] from a randomly chosen centre, at least lo from every centre."""
    centers = np.atleast_2d(np.asarray(centers, dtype=float))
    out = []
    while len(out) < n:
        r = np.exp(rng.uniform(np.log(lo), np.log(hi), n))
        u = rng.normal(size=(n, 3))
        u /= np.linalg.norm(u, axis=1)[:, None]
        p = centers[rng.integers(len(centers), size=n)] + u * r[:, None]
        d = np.min(np.linalg.norm(p[:, None, :] - centers[None, :, :], axis=2), axis=1)
        out.extend(p[d >= lo])
    return np.array(out[:n])


def _nuclear_points(rng, centers):
    """The centres EXACTLY, and points 1e-13 and 1e-10 away from each (returns points, mask of the exact ones)."""
    centers = np.atleast_2d(np.asarray(centers, dtype=float))
    pts, exact = [], []
    for c in centers:
        pts.append(c.copy())
        exact.append(True)
        for eps in (1e-13, 1e-10):
            u = rng.normal(size=3)
            pts.append(c + eps * u / np.linalg.norm(u))
            exact.append(False)
    return np.array(pts), np.array(exact)


def _loguniform(rng, lo, hi, size=None):
    return np.exp(rng.uniform(np.log(lo), np.log(hi), size))


def _coeffs(rng, n):
    """Charges in +-[0.2, 2]; the first one positive."""
    c = rng.uniform(0.2, 2.0, n) * np.where(rng.random(n) < 0.3, -1.0, 1.0)
    c[0] = abs(c[0])
    return c


def _bvp_kwargs(opts):
    kw = {"include_origin": bool(opts["include_origin"]), "remove_large_pts": opts["rlp"]}
    if opts.get("tol") is not None:
        kw["ode_params"] = {"tol": opts["tol"]}
    return kw


def _subject(api, spec, opts=None):
    s = f"{api}[{spec['kind']}"
    if opts is not None:
        s += f",origin={opts['include_origin']},rlp={opts['rlp']}" + (f",tol={opts['tol']}" if opts.get("tol") else "")
    return s + "]"


class _NotConverged(Exception):
    pass


def _call(ctx, clause, subject, fn):
    """Run a library solve; library non-convergence -> _NotConverged; any other library exception -> violation."""
    try:
        return fn()
    except ValueError as exc:
        if core.is_library_exception(exc) and "didn't converge" in str(exc):
            raise _NotConverged(str(exc)) from None
        if core.is_library_exception(exc):
            ctx.fail(clause, subject, f"raised:{type(exc).__name__}", detail={"error": str(exc)[:300], "tb": core.short_tb(exc)})
            raise _NotConverged("raised") from None
        raise
    except Exception as exc:
        if core.is_library_exception(exc):
            ctx.fail(clause, subject, f"raised:{type(exc).__name__}", detail={"error": str(exc)[:300], "tb": core.short_tb(exc)})
            raise _NotConverged("raised") from None
        raise


def _sig(err, scale):
    if not np.isfinite(err):
        return "non-finite"
    return f"err/scale~1e{int(math.floor(math.log10(max(err / scale, 1e-300))))}"


def _compare(ctx, clause, subject, got, want, tol, scale, note=None, extra=None):
    got = np.asarray(got, dtype=float)
    d = np.abs(got - want)
    err = float(np.max(d)) if np.all(np.isfinite(got)) else float("nan")
    i = int(np.nanargmax(d)) if np.any(np.isfinite(d)) else 0
    detail = {"max_abs_err": err, "scale": scale, "got": float(got[i]), "want": float(want[i]), "median_ratio": float(np.median(got / np.where(want == 0, 1.0, want)))}
    if extra:
        detail.update(extra)
    ctx.check(clause, subject, err / scale, tol, sig=_sig(err, scale), detail=detail)
    if note:
        ctx.case_note(note, err / scale)
    return err


_ROT = {"v": 0}  # per-case seed of the random per-shell rotation of the angular grids (0 = no rotation), set in run_case


def _atomgrid(rgrid, degree, center=(0.0, 0.0, 0.0), rotate=None):
    from grid.atomgrid import AtomGrid

    return AtomGrid(rgrid, degrees=[int(degree)], center=np.asarray(center, dtype=float), rotate=_ROT["v"] if rotate is None else int(rotate))


def _molgrid(rgrid, degree, atnums, coords):
    from grid.becke import BeckeWeights
    from grid.molgrid import MolGrid

    # Clenshaw-Curtis / Simpson / trapezoid rules through BeckeRTransform put their last node at the trimmed infinity
    # r = 1e16, where Becke weights are beyond the floating-point resolution of the geometry (inf / NaN for some
    # geometries: recorded by C06 as outside its decided domain |r| <= 1e12, and the cause of a false alarm of this check
    # at seed 4). That node carries no density and is removed from the ODE mesh by remove_large_pts anyway: cut it off.
    if float(rgrid.points[-1]) > 1e12:
        rgrid = rgrid[:-1]
    ats = [_atomgrid(rgrid, degree, c) for c in coords]
    return MolGrid(np.array(atnums), ats, BeckeWeights(order=3), store=True)


def _geometry(rng, nat):
    """2-3 nuclei with nearest-neighbour distances in [1.4, 3.0], random orientation."""
    while True:
        pts = [np.zeros(3)]
        for _ in range(nat - 1):
            u = rng.normal(size=3)
            u /= np.linalg.norm(u)
            pts.append(pts[int(rng.integers(len(pts)))] + u * rng.uniform(1.4, 3.0))
        pts = np.array(pts)
        dm = np.linalg.norm(pts[:, None] - pts[None], axis=2) + 10 * np.eye(nat)
        if dm.min() >= 1.4:
            return pts + rng.uniform(-0.5, 0.5, 3)


def _centre(rng):
    """Grid centre: the origin or a random point (the solvers must work relative to the grid's own centre)."""
    return np.zeros(3) if rng.random() < 0.4 else rng.uniform(-1.5, 1.5, 3)


def _aniso_comps(rng, lms):
    return [(float(rng.uniform(0.3, 1.5) * (1 if rng.random() < 0.7 else -1)), int(l), int(m), float(_loguniform(rng, 0.3, 3.0))) for l, m in lms]


# ---------------------------------------------------------------------------------------------------
def run_case(ctx, family, params):
    np.random.seed(int(ctx.rng.integers(2**32 - 1)))  # initial guess of solve_ode_bvp comes from the global RNG
    # Per-shell random rotation of the angular grids (AtomGrid(rotate=seed); default 37 of the MolGrid constructors): two of three
    # cases of every family run on rotated grids.  Drawn from a separate stream so that the densities of a case do not depend on it.
    rr = np.random.default_rng([int(ctx.seed) & 0xFFFFFFFF, zlib.crc32(core.case_id(family, params).encode()), 4])
    _ROT["v"] = 0 if int(params.get("k", 0)) % 3 == 2 else int(rr.integers(1, 2**31 - 1))
    ctx.count("cases-on-rotated-grids" if _ROT["v"] else "cases-on-unrotated-grids")
    ctx.case_note("rotate", _ROT["v"])
    try:
        _run(ctx, family, params)
    except _NotConverged as exc:
        if str(exc) != "raised":
            ctx.discard("library reported non-convergence")
            ctx.observe("solver did not converge", family=family, rad=params.get("rad"), opts=params.get("opts"))


def _run(ctx, family, params):
    from grid.poisson import interpolate_laplacian, solve_poisson_bvp, solve_poisson_ivp

    rng = ctx.rng
    zero = np.zeros(3)

    if family == "bvp-centred":
        rg, tf, r0, rmax = make_radial(params["rad"])
        zero = _centre(rng)
        ag = _atomgrid(rg, params["degree"], zero)
        n = params["nterms"]
        cs, al = _coeffs(rng, n), _loguniform(rng, *params["arange"], n)
        if params["opts"]["rlp"] is not None and params["opts"]["rlp"] <= 30.0:
            al = np.maximum(al, 0.2)
        if n >= 2 and rng.random() < 0.2:  # neutral density: total charge (the l=0 boundary value) is zero
            cs[-1] = -np.sum(cs[:-1])
            ctx.count("neutral-density-cases")
        subj = _subject("solve_poisson_bvp", params["rad"], params["opts"])
        rho = ref.gauss_density(ag.points, cs, al, [zero] * n)
        pot = _call(ctx, "bvp-accuracy-centred", subj, lambda: solve_poisson_bvp(ag, rho, tf, **_bvp_kwargs(params["opts"])))
        P = _eval_points(rng, [zero])
        got = _call(ctx, "bvp-accuracy-centred", subj, lambda: pot(P))
        _compare(ctx, "bvp-accuracy-centred", subj, got, ref.gauss_potential(P, cs, al, [zero] * n), TOL_ACC, float(np.sum(np.abs(cs))), note="err/sum|c|", extra={"alphas": al, "coeffs": cs})
        # the returned callable is a function of the points only: same points, shuffled order, same values
        perm = rng.permutation(len(P))
        got2 = pot(P[perm])
        ctx.check("potential-is-pointwise", subj, float(np.max(np.abs(got2 - got[perm]))), 1e-12 * max(1.0, float(np.max(np.abs(got)))))

    elif family == "bvp-offcentre":
        rg, tf, r0, rmax = make_radial(params["rad"])
        zero = _centre(rng)
        ag = _atomgrid(rg, params["degree"], zero)
        n = params["nterms"]
        cs, al = _coeffs(rng, n), _loguniform(rng, 0.2, 3.0, n)
        ds = []
        for a in al:
            u = rng.normal(size=3)
            ds.append(zero + u / np.linalg.norm(u) * rng.uniform(0.1, 0.5) / np.sqrt(a))
        if params["with_centred"]:
            cs, al, ds = np.append(cs, rng.uniform(0.3, 1.5)), np.append(al, _loguniform(rng, 0.3, 4.0)), ds + [zero]
        subj = _subject("solve_poisson_bvp", params["rad"], params["opts"])
        rho = ref.gauss_density(ag.points, cs, al, ds)
        pot = _call(ctx, "bvp-accuracy-offcentre", subj, lambda: solve_poisson_bvp(ag, rho, tf, **_bvp_kwargs(params["opts"])))
        P = _eval_points(rng, [zero])
        _compare(ctx, "bvp-accuracy-offcentre", subj, pot(P), ref.gauss_potential(P, cs, al, ds), TOL_ACC, float(np.sum(np.abs(cs))), note="err/sum|c|", extra={"alphas": al, "disp_sqrt_a": [float(np.linalg.norm(d - zero) * np.sqrt(a)) for d, a in zip(ds, al)]})

    elif family in ("bvp-aniso", "bvp-aniso-default-options"):
        rg, tf, r0, rmax = make_radial(params["rad"])
        zero = _centre(rng)
        ag = _atomgrid(rg, params["degree"], zero)
        comps = _aniso_comps(rng, params["lm"])
        subj = _subject("solve_poisson_bvp", params["rad"], params["opts"]) + ":l=" + ",".join(str(l) for l in sorted({c[1] for c in comps}))
        rho = ref.aniso_density(ag.points, comps, zero)
        scale = float(sum(abs(c[0]) for c in comps))
        want_fn = lambda P: ref.aniso_potential(P, comps, zero)  # noqa: E731
        if params["with_s"]:
            c0, a0 = float(rng.uniform(0.3, 1.5)), float(_loguniform(rng, 0.3, 4.0))
            rho = rho + ref.gauss_density(ag.points, [c0], [a0], [zero])
            scale += c0
            want_fn = lambda P: ref.aniso_potential(P, comps, zero) + ref.gauss_potential(P, [c0], [a0], [zero])  # noqa: E731
        pot = _call(ctx, "bvp-accuracy-aniso", subj, lambda: solve_poisson_bvp(ag, rho, tf, **_bvp_kwargs(params["opts"])))
        P = _eval_points(rng, [zero])
        _compare(ctx, "bvp-accuracy-aniso", subj, pot(P), want_fn(P), TOL_ACC, scale, note="err/sum|c|", extra={"comps": [list(c) for c in comps]})

    elif family == "bvp-mol":
        rg, tf, r0, rmax = make_radial(params["rad"])
        atn = params["atnums"]
        coords = _geometry(rng, len(atn))
        mg = _molgrid(rg, params["degree"], atn, coords)
        cs = rng.uniform(0.3, 2.0, len(atn))
        al = _loguniform(rng, 0.4, 3.0, len(atn))
        subj = _subject("solve_poisson_bvp:molgrid", params["rad"], params["opts"]) + f":{len(atn)}-centre"
        # the accuracy is relative to the total charge at every decided charge scale (linearity): strong densities
        # (charge factors 1e2..2e3) are solved as well as O(1) ones.  WEAK densities (total charge below ~1e-8) are NOT decided:
        # solve_ode_bvp starts from a random O(1) initial guess and SciPy's collocation tolerance is partly absolute, so
        # on the unchanged tree V[lam*rho]/lam deviates from V[rho] by 1e-5 .. 40 % for lam = 1e-9 .. 1e-10 depending on
        # the radial grid (measured; DESIGN.md 8.2 "recorded, not decided") - no clause can separate a defect from that noise.
        # Charge factors >= 1e4 are outside the converging envelope: on the unchanged tree solve_bvp exceeds max_nodes there
        # (probe, 24 molecular solves: factor <= 1e3 converged 24/24, 1e4 18/24, 1e5 4/24 -> 3/36 discards = INCONCLUSIVE).
        lam = [1.0, 1.0, 1.0, float(_loguniform(rng, 1e2, 2e3))][int(params.get("k", 0)) % 4]
        if lam != 1.0:
            subj += ":strong-density"
            ctx.count("bvp-mol:scaled-density")
        rho = lam * ref.gauss_density(mg.points, cs, al, coords)
        pot = _call(ctx, "bvp-accuracy-mol", subj, lambda: solve_poisson_bvp(mg, rho, tf, **_bvp_kwargs(params["opts"])))
        P = _eval_points(rng, coords)
        _compare(ctx, "bvp-accuracy-mol", subj, pot(P) / lam, ref.gauss_potential(P, cs, al, coords), TOL_ACC, float(np.sum(np.abs(cs))), note="err/sum|c|", extra={"alphas": al, "coords": coords, "atnums": atn, "charge_scale": lam})

    elif family == "ivp":
        spec = {"kind": "trap-linfinite", "n": params["n"], "rmin": 1e-3, "rmax": 1e3}
        rg, tf, r0, rmax = make_radial(spec)
        ag = _atomgrid(rg, params["degree"])
        n = params["nterms"]
        cs, al = _coeffs(rng, n), _loguniform(rng, 0.05, 0.5, n)
        ode = params["ode"]
        subj = f"solve_poisson_ivp[trap-linfinite,ode={'default' if ode is None else ','.join(sorted(ode))}]"
        rho = ref.gauss_density(ag.points, cs, al, [zero] * n)
        pot = _call(ctx, "ivp-accuracy-spherical", subj, lambda: solve_poisson_ivp(ag, rho, tf, r_interval=(1e3, 1e-3), ode_params=ode))
        P = _eval_points(rng, [zero], lo=0.3, hi=100.0)
        _compare(ctx, "ivp-accuracy-spherical", subj, pot(P), ref.gauss_potential(P, cs, al, [zero] * n), TOL_ACC, float(np.sum(np.abs(cs))), note="err/sum|c|", extra={"alphas": al})

    elif family == "linearity":
        if params["solver"] == "ivp":
            spec = {"kind": "trap-linfinite", "n": params["n"], "rmin": 1e-3, "rmax": 1e3}
            rg, tf, r0, rmax = make_radial(spec)
            subj = "solve_poisson_ivp[trap-linfinite]"
            solve = lambda g, f: solve_poisson_ivp(g, f, tf, r_interval=(1e3, 1e-3))  # noqa: E731
            arange, lo, hi = (0.05, 0.5), 0.3, 100.0
        else:
            rg, tf, r0, rmax = make_radial(params["rad"])
            subj = _subject("solve_poisson_bvp", params["rad"], params["opts"])
            kw = _bvp_kwargs(params["opts"])
            solve = lambda g, f: solve_poisson_bvp(g, f, tf, **kw)  # noqa: E731
            arange, lo, hi = tuple(params.get("arange", (0.3, 3.0))), 0.05, 8.0
            if params["opts"]["rlp"] is not None and params["opts"]["rlp"] <= 30.0:
                arange = (max(arange[0], 0.2), arange[1])
        ag = _atomgrid(rg, params["degree"])
        dens, scales = [], []
        for j in range(2):
            if params["dens"] == "aniso":
                lmax = min(params["degree"] // 2, 5)
                lms = [(int(l), int(rng.integers(-l, l + 1))) for l in rng.integers(1, lmax + 1, 2)]
                comps = _aniso_comps(rng, lms)
                c0, a0 = float(rng.uniform(0.3, 1.5)), float(_loguniform(rng, 0.3, 4.0))
                dens.append(ref.aniso_density(ag.points, comps) + ref.gauss_density(ag.points, [c0], [a0], [zero]))
                scales.append(c0 + sum(abs(c[0]) for c in comps))
            else:
                n = int(rng.integers(1, 3))
                cs, al = _coeffs(rng, n), _loguniform(rng, *arange, n)
                dens.append(ref.gauss_density(ag.points, cs, al, [zero] * n))
                scales.append(float(np.sum(np.abs(cs))))
        a, b = float(rng.uniform(-3, 3)), float(rng.uniform(-3, 3))
        subj += ":" + params["dens"]
        v1 = _call(ctx, "linearity", subj, lambda: solve(ag, dens[0]))
        v2 = _call(ctx, "linearity", subj, lambda: solve(ag, dens[1]))
        v12 = _call(ctx, "linearity", subj, lambda: solve(ag, a * dens[0] + b * dens[1]))
        P = _eval_points(rng, [zero], lo=lo, hi=hi)
        scale = abs(a) * scales[0] + abs(b) * scales[1]
        _compare(ctx, "linearity", subj, v12(P), a * v1(P) + b * v2(P), TOL_LIN, scale, note="lin-err/scale", extra={"a": a, "b": b})
        # homogeneity on its own (scaling by a large and a negative factor)
        lam = -float(_loguniform(rng, 10.0, 2e3))  # (factors >= 1e4 are outside the converging envelope, see bvp-mol)
        v3 = _call(ctx, "linearity", subj, lambda: solve(ag, lam * dens[0]))
        _compare(ctx, "linearity", subj + ":scaling", v3(P) / lam, v1(P), TOL_LIN, scales[0], extra={"lambda": lam})

    elif family == "laplacian":
        rg, tf, r0, rmax = make_radial(params["rad"])
        ag = _atomgrid(rg, params["degree"])
        n = params["nterms"]
        cs, al = _coeffs(rng, n), _loguniform(rng, 0.2, 3.0, n)
        comps = _aniso_comps(rng, params["lm"])
        subj = f"interpolate_laplacian[{params['rad']['kind']}]:l=" + ",".join(str(l) for l in sorted({0} | {c[1] for c in comps}))

        def vfun(P):
            v = ref.gauss_potential(P, cs, al, [zero] * n)
            return v + ref.aniso_potential(P, comps) if comps else v

        def src(P):
            f = ref.gauss_density(P, cs, al, [zero] * n)
            return -4 * np.pi * (f + ref.aniso_density(P, comps) if comps else f)

        vals = vfun(ag.points)
        lap = _call(ctx, "laplacian-of-potential", subj, lambda: interpolate_laplacian(ag, vals))
        rr = np.linalg.norm(ag.points, axis=1)
        mask = (rr >= 0.05) & (rr <= 8.0)
        want = src(ag.points[mask])
        scale = max(1.0, float(np.max(np.abs(want))))
        got = _call(ctx, "laplacian-of-potential", subj, lambda: lap(ag.points[mask]))
        _compare(ctx, "laplacian-of-potential", subj + ":grid-points", got, want, TOL_LAP, scale, note="lap-err/scale(grid)")
        P = _eval_points(rng, [zero])
        _compare(ctx, "laplacian-of-potential", subj + ":random-points", lap(P), src(P), TOL_LAP, scale, note="lap-err/scale(random)")
        ctx.case_note("n_grid_points_checked", int(mask.sum()))

    elif family == "weak-density":
        rg, tf, r0, rmax = make_radial(params["rad"])
        dens = params["dens"]
        truth_decided = True
        if dens == "mol":
            atn = params["atnums"]
            coords = _geometry(rng, len(atn))
            g = _molgrid(rg, params["degree"], atn, coords)
            cs, al = rng.uniform(0.3, 2.0, len(atn)), _loguniform(rng, 0.4, 3.0, len(atn))
            rho, P = ref.gauss_density(g.points, cs, al, coords), _eval_points(rng, coords)
            truth, scale = ref.gauss_potential(P, cs, al, coords), float(np.sum(np.abs(cs)))
            truth_decided = False  # molecular accuracy (<= 1e-3) is decided at O(1) charge by bvp-mol; here: homogeneity
        else:
            ctr = _centre(rng)
            g = _atomgrid(rg, params["degree"], ctr)
            P = _eval_points(rng, [ctr])
            if dens == "off":
                n = int(rng.integers(1, 3))
                cs, al = _coeffs(rng, n), _loguniform(rng, 0.2, 3.0, n)
                ds = []
                for a in al:
                    u = rng.normal(size=3)
                    ds.append(ctr + u / np.linalg.norm(u) * rng.uniform(0.2, 0.5) / np.sqrt(a))
                rho, truth, scale = ref.gauss_density(g.points, cs, al, ds), ref.gauss_potential(P, cs, al, ds), float(np.sum(np.abs(cs)))
            else:
                comps = _aniso_comps(rng, params["lm"])
                c0, a0 = float(rng.uniform(0.3, 1.5)), float(_loguniform(rng, 0.3, 4.0))
                rho = ref.aniso_density(g.points, comps, ctr) + ref.gauss_density(g.points, [c0], [a0], [ctr])
                truth = ref.aniso_potential(P, comps, ctr) + ref.gauss_potential(P, [c0], [a0], [ctr])
                scale = c0 + float(sum(abs(c[0]) for c in comps))
            # comparison with the exact potential only where the base error leaves >= 100x margin (measured worst: Clenshaw-Curtis
            # with first node 1e-6 3.9e-5, Gauss-Legendre/Becke with origin node 7e-6; first node 1e-5 3e-4, HandyMod 9.8e-5,
            # Handy 1.04e-4 -> homogeneity only)
            kind = params["rad"]["kind"]
            truth_decided = (kind == "cc-becke" and params["rad"]["rmin"] <= 2e-6) or kind == "gl-becke"
        lam = float(_loguniform(rng, 1e-6, params["lam_hi"]))
        subj = _subject("solve_poisson_bvp" + (":molgrid" if dens == "mol" else ""), params["rad"], params["opts"]) + f":weak-density:{dens}"
        kw = _bvp_kwargs(params["opts"])
        v1 = _call(ctx, "weak-density-homogeneity", subj, lambda: solve_poisson_bvp(g, rho, tf, **kw))
        vl = _call(ctx, "weak-density-homogeneity", subj, lambda: solve_poisson_bvp(g, lam * rho, tf, **kw))
        got = vl(P) / lam
        _compare(ctx, "weak-density-homogeneity", subj, got, v1(P), TOL_WEAK, scale, note="|V[lam rho]/lam - V[rho]|/sum|c|", extra={"lambda": lam})
        if truth_decided:
            _compare(ctx, "weak-density-accuracy", subj, got, truth, TOL_WEAK, scale, note="|V[lam rho]/lam - exact|/sum|c|", extra={"lambda": lam})
        ctx.case_note("lambda", lam)

    elif family in ("robust-route", "robust-exact-core", "robust-smooth"):
        _run_robust(ctx, family, params)
    elif family == "robust-depleted":
        _run_depleted(ctx, params)
    elif family == "far-field":
        _run_far_field(ctx, params)
    elif family == "core-model-data":
        _run_core_data(ctx)
    elif family == "grid-constructors":
        _run_constructors(ctx, params)
    else:
        raise core.MonitorError(f"unknown family {family}")


def _run_robust(ctx, family, params):
    from grid.coulomb import coulomb_potential, load_atomic_gaussian_params
    from grid.poisson import solve_poisson_bvp
    from grid.robust_poisson import solve_poisson_robust

    rng = ctx.rng
    atn = [int(z) for z in params["atnums"]]
    mol = params["mol"]
    if mol:
        spec = {"kind": "cc-becke", "n": 100, "rmin": 1e-5, "R": 1.5}  # node at the trimmed infinity is cut off in _molgrid
        rg, tf, r0, rmax = make_radial(spec)
        coords = _geometry(rng, len(atn))
        grid = _molgrid(rg, params["degree"], atn, coords)
        kw = {"include_origin": False}
    else:
        spec = {"kind": "gl-becke", "n": int(rng.choice([100, 120])), "rmin": 1e-5, "R": 1.5}
        rg, tf, r0, rmax = make_radial(spec)
        coords = rng.uniform(-1.0, 1.0, (1, 3)) if rng.random() < 0.5 else np.zeros((1, 3))
        grid = _atomgrid(rg, params["degree"], coords[0])
        kw = {}
    tag = f"[{'mol' if mol else 'atom'},Z={'-'.join(map(str, atn))}]"
    qcore = ref.core_charge(atn)
    P = _eval_points(rng, coords)
    atn_arr, crd = np.array(atn), np.array(coords)
    # the nuclei EXACTLY and points 1e-13 / 1e-10 away.  What is decided there: the analytic (closed-form) part - through the
    # hook on coulomb_potential, which fires on these evaluations - and the whole robust potential when density == core model
    # (numerical part is the solution for a zero residual).  NOT decided there: the numerical BVP part, which the library sets to
    # exactly 0 at |r| < 1e-300 by construction and whose u(r)/r is rounding noise / r for r <= 1e-10 (measured 5e-3 at 1e-13).
    PN, exactN = _nuclear_points(rng, coords)

    if family == "robust-exact-core":
        s2 = params["split2"]
        subj = f"solve_poisson_robust{tag}:split2={s2}"
        rho = ref.core_density(grid.points, atn, coords)
        pot = _call(ctx, "robust-exact-on-core-model", subj, lambda: solve_poisson_robust(grid, rho, tf, atn_arr, crd, split2=s2, **kw))
        _compare(ctx, "robust-exact-on-core-model", subj, pot(P), ref.core_potential(P, atn, coords), TOL_CORE, max(1.0, qcore), note="err/core-charge")
        # at the nuclei themselves (molecules: only the exact positions - at 1e-13 the zero-residual solve leaves 1e-17/r noise)
        PNd = PN if not mol else PN[exactN]
        vN = _call(ctx, "robust-exact-on-core-model", subj + ":at-nuclei", lambda: pot(PNd))
        _compare(ctx, "robust-exact-on-core-model", subj + ":at-nuclei", vN, ref.core_potential(PNd, atn, coords), TOL_CORE, max(1.0, qcore), note="err/core-charge(at nuclei)")
        if mol:
            pot(PN[~exactN])  # analytic part still checked by the hook
        return

    # smooth density: Gaussians on the nuclei, charge 0.5..4 each
    cs = rng.uniform(0.5, 4.0, len(atn))
    # molecules: "smooth" = exponents <= 1.6 (probe: with both exponents > 1.7 the split2 NNLS fit leaves a residual the radial
    # grid resolves only to 1-3e-3 x scale, independent of the angular degree - inside the threshold but without margin)
    al = _loguniform(rng, 0.3, 1.6 if mol else 3.0, len(atn))
    rho = ref.gauss_density(grid.points, cs, al, coords)
    truth = ref.gauss_potential(P, cs, al, coords)
    scale = float(np.sum(np.abs(cs))) + qcore

    if family == "robust-route":
        subj = f"solve_poisson_robust{tag}:split2=False"
        state = np.random.get_state()
        _capture["on"], _capture["calls"] = True, []
        try:
            pot = _call(ctx, "robust-equals-core-plus-bvp", subj, lambda: solve_poisson_robust(grid, rho, tf, atn_arr, crd, split2=False, **kw))
        finally:
            _capture["on"] = False
        got = pot(P)
        gotN = _call(ctx, "robust-equals-core-plus-bvp", subj + ":at-nuclei", lambda: pot(PN))  # hook checks the analytic part
        # (a) what the robust solver handed to the public BVP solver
        own_core = ref.core_density(grid.points, atn, coords)
        calls = [c for c in _capture["calls"] if len(c[0]) >= 2 and np.shape(c[0][1]) == np.shape(rho)]
        _capture["calls"] = []
        if not calls:
            ctx.fail("robust-equals-core-plus-bvp", subj, "bvp-solver-not-called")
        else:
            handed = np.asarray(calls[-1][0][1], dtype=float)
            mag = float(np.max(np.abs(own_core)) + np.max(np.abs(rho)))
            dres = float(np.max(np.abs(handed - (rho - own_core)))) / mag
            sig = "residual=rho+core" if np.max(np.abs(handed - (rho + own_core))) / mag < 1e-9 else ("residual=rho" if np.max(np.abs(handed - rho)) / mag < 1e-9 else "residual-differs")
            ctx.check("robust-residual-is-density-minus-core", subj, dres, 1e-12, sig=sig)
        # (b) recomposition from the public pieces with the same initial-guess stream
        np.random.set_state(state)
        plain_res = _call(ctx, "robust-equals-core-plus-bvp", subj, lambda: solve_poisson_bvp(grid, rho - own_core, tf, **kw))
        vcore_lib = np.zeros(len(P))
        for z, c in zip(atn, coords):
            co, ao = load_atomic_gaussian_params(z)
            vcore_lib += coulomb_potential(P, centers_s=np.tile(c, (len(co), 1)), coeffs_s=co, alphas_s=ao, normalized=True)
        _compare(ctx, "robust-equals-core-plus-bvp", subj, got, vcore_lib + plain_res(P), TOL_ROUTE, max(1.0, scale), note="route-err/scale")
        # exactly at the nuclei both numerical parts are 0 by construction: robust == analytic core part == own closed form
        PX = PN[exactN]
        _compare(ctx, "robust-equals-core-plus-bvp", subj + ":at-nuclei", gotN[exactN], ref.core_potential(PX, atn, coords) + plain_res(PX), TOL_ROUTE, max(1.0, scale))
        # (c) the analytic part against the monitor's own closed form (s-type only)
        _compare(ctx, "robust-core-potential-analytic", f"coulomb_potential{tag}", vcore_lib, ref.core_potential(P, atn, coords), TOL_COREPOT, max(1.0, qcore))
        # (d) and the truth
        _compare(ctx, "robust-accuracy", subj, got, truth, TOL_ACC, scale, note="err/(sum|c|+core)")
        return

    # robust-smooth: robust (split2 off / on) against the plain solver and the truth
    subj0 = f"solve_poisson_robust{tag}"
    plain = _call(ctx, "robust-vs-plain", subj0, lambda: solve_poisson_bvp(grid, rho, tf, **kw))
    vplain = plain(P)
    res = {}
    for s2 in (False, True):
        subj = f"{subj0}:split2={s2}"
        try:
            pot = _call(ctx, "robust-vs-plain", subj, lambda s2=s2: solve_poisson_robust(grid, rho, tf, atn_arr, crd, split2=s2, **kw))
        except _NotConverged as exc:
            if str(exc) != "raised":
                ctx.count("robust-smooth:one-branch-not-converged")
            continue
        res[s2] = pot(P)
        vN = pot(PN)  # analytic core and split-2 parts at / next to the nuclei go through the coulomb_potential hook
        if not np.all(np.isfinite(vN[exactN])):
            ctx.fail("robust-vs-plain", subj + ":at-nuclei", "non-finite")
        _compare(ctx, "robust-vs-plain", subj, res[s2], vplain, TOL_ACC, scale, note=f"vs-plain/scale(split2={s2})")
        _compare(ctx, "robust-accuracy", subj, res[s2], truth, TOL_ACC, scale, note=f"vs-truth/scale(split2={s2})")
    if len(res) == 2:
        _compare(ctx, "robust-split2-on-equals-off", subj0, res[True], res[False], TOL_ACC, scale, note="split2 on-off/scale")
    elif not res:
        raise _NotConverged("both robust branches")
    _compare(ctx, "bvp-accuracy-centred" if not mol else "bvp-accuracy-mol", f"solve_poisson_bvp[{'cc-becke' if mol else 'gl-becke'},robust-companion]", vplain, truth, TOL_ACC, float(np.sum(np.abs(cs))))


# ---------------------------------------------------------------------------------------------------
def _robust_with_capture(ctx, clause, subj, grid, rho, tf, atn, coords, split2, kw, P):
    """solve_poisson_robust under the hooks: returns (values at P, residual handed to the public BVP solver, its interpolant,
    list of the coulomb_potential calls made while evaluating at P)."""
    from grid.robust_poisson import solve_poisson_robust

    _capture["on"], _capture["calls"] = True, []
    try:
        pot = _call(ctx, clause, subj, lambda: solve_poisson_robust(grid, rho, tf, np.array(atn), np.array(coords), split2=split2, **kw))
    finally:
        _capture["on"] = False
    calls = [c for c in _capture["calls"] if len(c[0]) >= 2 and np.shape(c[0][1]) == np.shape(rho)]
    _capture["calls"] = []
    _capture["coul_on"], _capture["coul"] = True, []
    try:
        vals = _call(ctx, clause, subj, lambda: pot(P))
    finally:
        _capture["coul_on"] = False
    coul, _capture["coul"] = _capture["coul"], []
    if not calls:
        ctx.fail(clause, subj, "bvp-solver-not-called")
        raise _NotConverged("raised")
    return np.asarray(vals, dtype=float), np.asarray(calls[-1][0][1], dtype=float), calls[-1][2], coul


def _check_recomposition(ctx, subj, grid, rho, atn, coords, P, vals, handed, interp, coul, scale):
    """robust == analytic core + analytic fitted (split-2) part + BVP of what is left, from the pieces observed at the public
    functions.  Returns the number of Gaussians the split-2 fit retained on each atom."""
    nat = len(atn)
    coords = np.asarray(coords, dtype=float)
    own_core = ref.core_density(grid.points, atn, coords)
    fit = None
    if len(coul) == nat + 1:
        fit = coul[-1]
    elif len(coul) != nat:
        ctx.fail("robust-equals-core-plus-bvp", subj, f"unexpected-number-of-coulomb_potential-calls:{len(coul)}-for-{nat}-atoms")
        return [0] * nat
    mag = float(np.max(np.abs(own_core)) + np.max(np.abs(rho)))
    if fit is not None:
        fc, fa, fcen = fit["coeffs_s"], fit["alphas_s"], fit["centers_s"]
        rho_fit = ref.gauss_density(grid.points, fc, fa, fcen)
        v_fit = ref.gauss_potential(P, fc, fa, fcen)
        dist = np.linalg.norm(fcen[:, None, :] - coords[None, :, :], axis=2)
        owner = np.argmin(dist, axis=1)
        ctx.check("split2-fit-consistent", subj + ":centres-are-atoms", float(np.max(np.min(dist, axis=1))), 1e-12)
        ctx.check("split2-fit-consistent", subj + ":coefficients-positive", bool(np.all(fc > 0) and np.all(fa > 0)))
        retained = [int(np.sum(owner == i)) for i in range(nat)]
    else:
        rho_fit, v_fit, retained = np.zeros(len(rho)), np.zeros(len(P)), [0] * nat
    # (a) the density the BVP solver was given is what is left after core and fitted Gaussians AT THE CENTRES THEIR POTENTIAL USES
    d = float(np.max(np.abs(handed - (rho - own_core - rho_fit)))) / mag
    wrong = "fitted-gaussians-on-other-centres" if fit is not None and d > TOL_FIT else "residual-differs"
    ctx.check("split2-fit-consistent", subj + ":residual==rho-core-fit", d, TOL_FIT, sig=wrong, detail={"retained_per_atom": retained, "max_abs": d * mag})
    # (b) the sum
    _compare(ctx, "robust-equals-core-plus-bvp", subj + ":recomposed", vals, ref.core_potential(P, atn, coords) + v_fit + np.asarray(interp(P), dtype=float), TOL_ROUTE, max(1.0, scale))
    return retained


def _run_depleted(ctx, params):
    """Molecules in which some sites carry no / tiny / negative density: their split-2 NNLS fit retains nothing."""
    from grid.poisson import solve_poisson_bvp

    rng = ctx.rng
    atn = [int(z) for z in params["atnums"]]
    nat = len(atn)
    spec = {"kind": "cc-becke", "n": 100, "rmin": 1e-5, "R": 1.5}
    rg, tf, r0, rmax = make_radial(spec)
    lo, hi = (3.5, 6.0) if params["far"] else (1.6, 4.0)
    while True:
        pts = [np.zeros(3)]
        for _ in range(nat - 1):
            u = rng.normal(size=3)
            pts.append(pts[int(rng.integers(len(pts)))] + u / np.linalg.norm(u) * rng.uniform(lo, hi))
        coords = np.array(pts)
        if (np.linalg.norm(coords[:, None] - coords[None], axis=2) + 10 * np.eye(nat)).min() >= lo:
            break
    coords = coords + rng.uniform(-0.5, 0.5, 3)
    grid = _molgrid(rg, params["degree"], atn, coords)
    kw = {"include_origin": False}
    # occupied sites are electron rich (charge = core charge + 1.5..3, so that the fit has something to retain), empty ones not
    cs = np.array([ref.core_charge([z]) + rng.uniform(1.5, 3.0) for z in atn])
    al = _loguniform(rng, 0.3, 1.2, nat)
    for i in params["empty"]:
        cs[i] = {"zero": 0.0, "tiny": 1e-3, "negative": -float(rng.uniform(0.2, 0.8))}[params["mode"]]
    rho = ref.gauss_density(grid.points, cs, al, coords)
    P = _eval_points(rng, coords)
    truth = ref.gauss_potential(P, cs, al, coords)
    qcore = ref.core_charge(atn)
    scale = float(np.sum(np.abs(cs))) + qcore
    tag = f"[mol,{nat}-centre,depleted-sites]"
    res = {}
    for s2 in (False, True):
        subj = f"solve_poisson_robust{tag}:split2={s2}"
        try:
            vals, handed, interp, coul = _robust_with_capture(ctx, "robust-equals-core-plus-bvp", subj, grid, rho, tf, atn, coords, s2, kw, P)
        except _NotConverged as exc:
            if str(exc) != "raised":
                ctx.count("robust-depleted:one-branch-not-converged")
            continue
        retained = _check_recomposition(ctx, subj, grid, rho, atn, coords, P, vals, handed, interp, coul, scale)
        res[s2] = vals
        if s2:
            ctx.case_note("retained_per_atom", retained)
            later = [any(r > 0 for r in retained[i + 1 :]) for i in range(nat)]
            if any(retained[i] == 0 and later[i] for i in range(nat)):
                ctx.hit("split2:empty-fit-before-a-retaining-atom")
                if retained[0] == 0:
                    ctx.hit("split2:empty-fit-on-first-atom")
                if any(retained[i] == 0 and later[i] for i in range(1, nat)):
                    ctx.hit("split2:empty-fit-on-middle-atom")
            if not any(retained):
                ctx.count("robust-depleted:split2-retained-nothing")
        _compare(ctx, "robust-accuracy", subj, vals, truth, TOL_ACC, scale, note=f"vs-truth/scale(split2={s2})", extra={"coeffs": cs, "alphas": al, "atnums": atn})
    if not res:
        raise _NotConverged("both robust branches")
    if len(res) == 2:
        _compare(ctx, "robust-split2-on-equals-off", f"solve_poisson_robust{tag}", res[True], res[False], TOL_ACC, scale, note="split2 on-off/scale")


def _run_far_field(ctx, params):
    """Radial grids of FINITE range, evaluation points beyond the last radial shell: outside all charge V = Q/r.
    Decided for spherical densities only (for l>0 the solver imposes u(r_last)=0, the far field is lost by construction) and up to
    the distance factors where the unchanged tree's polynomial extrapolation of u(r) was measured to keep r|dV| <= 1e-4 x scale."""
    from grid.poisson import solve_poisson_bvp, solve_poisson_ivp
    from grid.robust_poisson import solve_poisson_robust

    rng = ctx.rng
    rg, tf, r0, rmax = make_radial(params["rad"])
    kind, solver = params["rad"]["kind"], params["solver"]
    ctr = _centre(rng) if solver != "ivp" else np.zeros(3)
    ag = _atomgrid(rg, params["degree"], ctr)
    n = int(rng.integers(1, 3))
    if solver == "ivp":
        cs, al = _coeffs(rng, n), _loguniform(rng, 0.05, 0.5, n)
        factors = [1.001, 1.1]  # beyond that the dense output of the inward IVP is not defined (measured: garbage at 3 x)
    else:
        cs, al = _coeffs(rng, n), _loguniform(rng, 0.3, 1.5, n)  # (400-point linear grids resolve exponents <= 1.5 to 1e-4)
        # measured worst r|dV|/scale on the unchanged tree: Knowles 1e-6 at every distance; HandyMod / LinearFinite 3.5e-6 (robust
        # 2.9e-5) at 1.1 x, 1.2e-4 at 3 x (not decided: < 100 x margin), LinearFinite 6 at 100 x (cubic extrapolation in the
        # transformed variable)
        factors = {"gl-knowles": [1.001, 1.1, 3.0, 30.0, 100.0], "gl-handymod": [1.001, 1.1], "gl-linfinite": [1.001, 1.1], "trap-linfinite": [1.001, 1.1]}[kind]
    rho = ref.gauss_density(ag.points, cs, al, [ctr] * n)
    scale = float(np.sum(np.abs(cs)))
    P = []
    for f in factors:
        for _ in range(6):
            u = rng.normal(size=3)
            P.append(ctr + u / np.linalg.norm(u) * f * rmax)
    P = np.array(P)
    fac = np.repeat(factors, 6)
    if solver == "bvp":
        subj = _subject("solve_poisson_bvp", params["rad"], params["opts"]) + ":beyond-last-shell"
        pot = _call(ctx, "far-field-beyond-last-shell", subj, lambda: solve_poisson_bvp(ag, rho, tf, **_bvp_kwargs(params["opts"])))
    elif solver == "ivp":
        subj = "solve_poisson_ivp[trap-linfinite]:beyond-r_interval"
        pot = _call(ctx, "far-field-beyond-last-shell", subj, lambda: solve_poisson_ivp(ag, rho, tf, r_interval=(1e3, 1e-3)))
    else:
        z = params["Z"]
        subj = f"solve_poisson_robust[atom,Z={z},{kind}]:beyond-last-shell"
        scale += ref.core_charge([z])
        kw = {"include_origin": bool(params["opts"]["include_origin"]), "remove_large_pts": params["opts"]["rlp"]}
        pot = _call(ctx, "far-field-beyond-last-shell", subj, lambda: solve_poisson_robust(ag, rho, tf, np.array([z]), np.array([ctr]), **kw))
    got = np.asarray(_call(ctx, "far-field-beyond-last-shell", subj, lambda: pot(P)), dtype=float)
    want = ref.gauss_potential(P, cs, al, [ctr] * n)
    r = np.linalg.norm(P - ctr, axis=1)
    for f in factors:
        m = fac == f
        _compare(ctx, "far-field-beyond-last-shell", subj + f":{f:g}x", got[m] * r[m], want[m] * r[m], TOL_FAR, scale, note=f"r|dV|/scale at {f:g} x r_last", extra={"r_last": rmax, "factor": f})
    # and inside the range as usual (not for the robust solver: a linear radial grid does not resolve the heavy cores it subtracts,
    # measured 2.4e-3 x scale for Cl - a resolution matter outside this family's purpose)
    if solver == "robust":
        return
    Pi = _eval_points(rng, [ctr], lo=0.05 if solver != "ivp" else 0.3, hi=8.0)
    _compare(ctx, "bvp-accuracy-centred" if solver != "ivp" else "ivp-accuracy-spherical", subj.split(":")[0] + ":finite-range", pot(Pi), ref.gauss_potential(Pi, cs, al, [ctr] * n), TOL_ACC, scale)


def _run_core_data(ctx):
    """The shipped core-model file against the library's loader and closed forms - no Poisson solve involved."""
    from grid.coulomb import coulomb_potential, load_atomic_gaussian_params

    for z in ref.elements():
        sym = ref.SYMBOL[z]
        c, a, extra = ref.core_params(z)
        subj = f"atomic_gauss_params[{sym}]"
        with ctx.guard("core-model-data", subj):
            for key in (z, np.int64(z), sym, sym.lower()):
                lc, la = load_atomic_gaussian_params(key)
                ctx.check("core-model-data", subj + ":loader==file", bool(np.array_equal(lc, c) and np.array_equal(la, a)))
            q = float(np.sum(c))
            ctx.check("core-model-data", subj + ":well-formed", bool(len(c) == len(a) > 0 and np.all(a > 0) and np.all(np.isfinite(c)) and not extra))
            # far field of the library's closed form: r V(r) -> total charge of the model
            u = ctx.rng.normal(size=(8, 3))
            Pf = u / np.linalg.norm(u, axis=1)[:, None] * 60.0
            v = coulomb_potential(Pf, centers_s=np.zeros((len(c), 3)), coeffs_s=c, alphas_s=a, normalized=True)
            ctx.check("core-model-data", subj + ":far-field==charge", float(np.max(np.abs(60.0 * v - q))) / q, 1e-12)
            # the model is there to remove the NUCLEAR CUSP of element Z (module docstring): its density at the nucleus must be of the
            # size of an atomic density there, min(Z,2) Z^3/pi for the 1s shell (observed ratios 0.93 .. 1.03; a coefficient/exponent
            # mis-pairing changes it by orders of magnitude)
            ratio = ref.core_density_at_nucleus(z) / (min(z, 2) * z**3 / np.pi)
            ctx.case_note(f"rho_core(0)/(1s estimate)[{sym}]", ratio)
            ctx.case_note(f"charge[{sym}]", q)
            ctx.check("core-model-nuclear-density-plausible", subj, abs(math.log(ratio)), math.log(3000.0), sig=f"ratio~1e{int(round(math.log10(ratio)))}", detail={"ratio": ratio})
            # the model charge is about the electron count of the neutral atom (observed Z .. Z + 1.3)
            ctx.check("core-model-data", subj + ":charge-about-Z", bool(0.9 * z <= q <= z + 2.0), detail={"charge": q})


def _run_constructors(ctx, params):
    """Grids built by the public constructors (rotated angular shells by default), aspherical densities, analytic erf truth."""
    from grid.atomgrid import AtomGrid
    from grid.becke import BeckeWeights
    from grid.molgrid import MolGrid
    from grid.poisson import solve_poisson_bvp
    from grid.robust_poisson import solve_poisson_robust

    rng = ctx.rng
    rg, tf, r0, rmax = make_radial(params["rad"])
    if float(rg.points[-1]) > 1e12:
        rg = rg[:-1]  # node at the trimmed infinity (see _molgrid)
    ctor, atn = params["ctor"], [int(z) for z in params["atnums"]]
    nat = len(atn)
    kw = {"include_origin": False}
    if ctor.startswith("mol"):
        coords = _geometry(rng, nat)
        za = np.array(atn)
        if ctor == "mol.from_size":
            grid = MolGrid.from_size(za, coords, int(params["size"]), rgrid=rg, aim_weights=BeckeWeights(order=3), store=True)
        elif ctor == "mol.from_pruned":
            grid = MolGrid.from_pruned(za, coords, 1.0, [[0.5, 1.0, 2.0]] * nat, [[10, 14, 18, 14]] * nat, rgrid=rg, aim_weights=BeckeWeights(order=3), store=True)
        else:
            grid = MolGrid.from_preset(za, coords, "fine", rgrid=rg, aim_weights=BeckeWeights(order=3), store=True)
        rot = {int(a.rotate) for a in grid.atgrids}
        ctx.check("constructor-default-rotate", ctor, rot == {37}, detail={"rotate": sorted(rot)})
        cs, al = rng.uniform(0.3, 2.0, nat), _loguniform(rng, 0.4, 2.0, nat)
        cen = [c for c in coords]
        # one more Gaussian between the nuclei (aspherical about every centre even without the Becke cells)
        cs, al, cen = np.append(cs, rng.uniform(0.2, 0.8)), np.append(al, _loguniform(rng, 0.4, 1.0)), cen + [coords[0] + 0.4 * (coords[1] - coords[0])]
        clause = "bvp-accuracy-mol"
    else:
        ctr = _centre(rng)
        coords = np.array([ctr])
        rot = int(rng.integers(1, 2**31 - 1)) if params["k"] % 4 else 37
        if ctor == "atom.from_pruned":
            grid = AtomGrid.from_pruned(rg, 1.0, r_sectors=[0.5, 1.0, 2.0], d_sectors=[10, 14, 18, 14], center=ctr, rotate=rot)
        elif ctor == "atom.from_preset":
            grid = AtomGrid.from_preset(atnum=atn[0], preset="fine", rgrid=rg, center=ctr, rotate=rot)
        else:
            grid = AtomGrid(rg, sizes=[int(params["size"])], center=ctr, rotate=rot)
        ctx.check("constructor-default-rotate", ctor, int(grid.rotate) == rot)
        n = int(rng.integers(1, 3))
        cs, al = _coeffs(rng, n), _loguniform(rng, 0.3, 2.0, n)
        cen = []
        for a in al:
            u = rng.normal(size=3)
            cen.append(ctr + u / np.linalg.norm(u) * rng.uniform(0.2, 0.5) / np.sqrt(a))
        clause = "bvp-accuracy-offcentre"
    # the shells really are rotated against each other (otherwise the case does not exercise what it is for)
    ag0 = grid.atgrids[0] if ctor.startswith("mol") else grid
    i0, i1 = int(ag0.indices[-3]), int(ag0.indices[-2])
    ctx.case_note("shell_size", i1 - i0)
    rho = ref.gauss_density(grid.points, cs, al, cen)
    P = _eval_points(rng, coords)
    truth = ref.gauss_potential(P, cs, al, cen)
    scale = float(np.sum(np.abs(cs)))
    subj = f"solve_poisson_{params['solver']}[{ctor},rotated]"
    if params["solver"] == "robust":
        scale += ref.core_charge(atn)
        pot = _call(ctx, "robust-accuracy", subj, lambda: solve_poisson_robust(grid, rho, tf, np.array(atn), coords, **kw))
        _compare(ctx, "robust-accuracy", subj, pot(P), truth, TOL_ACC, scale, note="err/scale")
    else:
        pot = _call(ctx, clause, subj, lambda: solve_poisson_bvp(grid, rho, tf, **kw))
        _compare(ctx, clause, subj, pot(P), truth, TOL_ACC, scale, note="err/sum|c|", extra={"grid_size": int(grid.size)})
