"""C04 - transforming a 1-D grid is a faithful change of variables.

Deciding monitor: post-condition attached to ``BaseTransform.transform_1d_grid`` (``gridrv.monitors.transform1d``; fires on
every call in the process, also on the default radial grid built inside ``AtomGrid.from_preset``): mapped nodes, weight
magnitude against |J| obtained by long-double Chebyshev differentiation of the IMPLEMENTED map (never ``tf.deriv``), sign
rule, image domain.  Quadrature-level oracles evaluated by the workload right after the call: sum identity for random
smooth integrands, transported Gauss-Legendre exactness through LinearFinite (orthonormal Legendre Gram matrix on [a,b]),
integral of exp(-beta r) over [0, inf) through every [-1,1] -> [0, inf) map, T followed by InverseRTransform(T).
"""

from __future__ import annotations

import math

import numpy as np
from numpy.polynomial import legendre as L

from gridrv.monitors import transform1d as mon
from gridrv.oracles import numdiff as nd
from gridrv.oracles import signatures_c0304 as sig
from gridrv.monitors import roundtrip
from gridrv.props import c03

PROP = "C04"
TITLE = "Transforming a 1D grid is a faithful change of variables"
REQUIRED_HOOKS = ["BaseTransform.transform_1d_grid", "decided:weights-magnitude", "decided:weights-sign", "decided:domain-image", "decided:sum-identity", "decided:points-dtype", "decided:sequence-repeat", "decided:construction"]
FAM_TF = [c03.CLS[k] for k in c03.KINDS] + ["InverseRTransform"]
REQUIRED_FAMILIES = FAM_TF + ["chain", "subdomain", "gl-linear-exactness", "exp-integral", "incidental", "pinned", "sequence", "dtype-grid", "boundary", "large-n", "construction", "clones", "option-values", "warnings-as-errors", "nested"]
BUDGET = {"quick": 900, "thorough": 7200}  # per-worker seconds; expected on 16 idle cores: quick ~10 s, thorough ~3-4 min
MAX_DISCARD_FRACTION = 0.02
TOL_EXPINT = 1e-3  # |beta*I - 1|; largest quadrature error seen (GL n=60/120, beta*R in [2,4]) 2.8e-6; the sign defect gives 2

RULES_M11 = ["GaussLegendre", "GaussChebyshev", "GaussChebyshevType2", "GaussChebyshevLobatto", "Trapezoidal", "RectangleRuleSineEndPoints", "TanhSinh", "Simpson", "MidPoint", "ClenshawCurtis", "FejerFirst", "FejerSecond", "TrefethenCC", "TrefethenGC2", "TrefethenGeneral", "TrefethenStripCC", "TrefethenStripGC2", "TrefethenStripGeneral", "SingleTanh"]
RULES_0INF = ["GaussLaguerre", "UniformInteger", "ExpSinh", "LogExpSinh", "ExpExp", "SingleExp", "SingleArcSinhExp"]
ODD_ONLY = {"TanhSinh", "Simpson", "ExpSinh", "LogExpSinh", "ExpExp", "SingleTanh", "SingleExp", "SingleArcSinhExp"}
NS_ALL = list(range(2, 31)) + [60, 120]
KINDS_M11 = ["Becke", "LinearFinite", "MultiExp", "Knowles", "Handy", "HandyMod"]
KINDS_0INF = ["Identity", "LinearInfinite", "Exp", "Power", "Hyperbolic"]
INV_M11 = ["LinearFinite", "HandyMod"]  # InverseRTransform(T) whose domain (rmin, rmax) can contain [-1, 1]
INV_0INF = ["Becke", "MultiExp", "Knowles", "Handy", "Identity", "Hyperbolic"]  # domain (0, inf) when rmin = 0
LARGE_RULES = ["GaussLegendre", "GaussChebyshev", "ClenshawCurtis-interior", "TanhSinh"]
LARGE_N = [200, 300, 500, 1000]
DTYPE_GRIDS = {
    "m11": ["int64-midpoint", "int32-midpoint", "int64-trapezoid", "int32-trapezoid", "int64-simpson", "int32-simpson", "int64-simpson-intweights", "float32-nodes+weights", "float32-weights"],
    "0inf": ["int64-arange", "int32-arange", "int64-arange-intweights", "float32-nodes+weights", "float32-weights"],
}
RULE = (
    "One case = (1-D rule, n, transform instance) with the transform's domain containing the rule's domain: 19 rules on [-1,1] x "
    "{Becke, LinearFinite, MultiExp, Knowles, Handy, HandyMod, Inverse(LinearFinite), Inverse(HandyMod)}, 7 rules on [0,inf) x "
    "{Identity, LinearInfinite, Exp, Power, Hyperbolic, Inverse(Becke|MultiExp|Knowles|Handy|Identity|Hyperbolic) with rmin=0}; "
    "transform parameters from the C03 grid (k,m in {1,2,3,4,5,1.5,2.5,3.7}, rmin, trim on/off, b explicit/learned, continuous "
    "parameters from the case RNG); n in {2..30,60,120} (all n in thorough, a seed-rotated subset in quick). Extra families: "
    "T then Inverse(T) (chain), user grids on a sub-interval / without domain / unsorted (subdomain), Gauss-Legendre through "
    "LinearFinite with the Legendre Gram oracle, integral of exp(-beta r), AtomGrid.from_preset default radial grids (incidental). "
    "Further input classes: ONE transform object applied to ~13 grids in a row (same rule class and size with different rule parameters, "
    "hand-made grids, the two halves of one grid, the same grid twice; family 'sequence'), hand-made OneDGrids whose nodes are stored as "
    "int64/int32 (midpoint/trapezoid/Simpson on {-1,0,1}, 0..n-1 on the half line) or float32 ('dtype-grid'), C03's boundary parameter "
    "values x numeric spellings ('boundary'), large rules crowding both ends (GaussLegendre, GaussChebyshev, ClenshawCurtis without its end "
    "nodes, TanhSinh with n in {200,300,500,1000}; UniformInteger(200..1000) on the half line; family 'large-n'); rmin up to 1e3 (rmin/R up to 2e4). "
    "Admissibility: a node that sits ON an end of the transform's domain where the map is singular (Becke/Knowles/Handy x=1, "
    "MultiExp x=-1, Inverse(T) at r=rmin when T'(-1)=0) is not an admissible pairing and is skipped (counted); Hyperbolic gets "
    "b*max(x,n-1)<1. A case is non-trivial when the weight identity was decided on at least one node."
)
ASSUMPTIONS = [
    "|J| oracle: long-double Chebyshev differentiation of the implemented tf.transform; per-node tolerance 1e-9 relative + 100 x its error estimate + conditioning allowance 100 eps (|J| + |x J'|) (plus, for InverseRTransform only, the measured float64 rounding of 1/T'(T.inverse(r))); the tolerance does not depend on how the library evaluates its own deriv; nodes whose tolerance exceeds 1e-3 |J| are undecided (counted)",
    "exp-integral clause: |beta*I - 1| <= 1e-3 with Gauss-Legendre n in {60,120}, rmin=0 and beta*R in [2,4] (integrand (1-u^k)^(beta R-1) smooth at the singular end; largest quadrature error seen 2.8e-6; for beta*R<1 Gauss-Legendre through the logarithmic maps is only accurate to ~0.1 and is not used)",
    "admissible pairings only: no node on a singular end of the map",
]
LEVEL_TEXT = "Held on every explored (rule, n, transform) pairing except the recorded open findings; post-condition also fired on incidental library-internal calls."
TECHNIQUE = "runtime monitoring: post-condition on BaseTransform.transform_1d_grid with an independent numerical Jacobian, plus quadrature-level reference checks"


# ------------------------------------------------------------------------------------------------ cases
def _tf_grid(kinds):
    """C03's structured parameter grid restricted to ``kinds``."""
    return [(k, p) for k, p in c03._structured() if k in kinds]


def _ns(tier, seed, i):
    """n values of one (rule, transform variant): all of them in thorough; quick: two small ones and one of 60/120, rotating."""
    if tier == "thorough":
        return NS_ALL
    small = [NS_ALL[(3 * i + seed) % 29], NS_ALL[(3 * i + seed + 13) % 29]]
    return sorted(set(small + [(60, 120)[(i + seed) % 2]]))


def _pick(variants, tier, seed, salt, many):
    """thorough: every parameter variant; quick: a seed-rotated subset (>= 1, so every (rule, class) pair is always present)."""
    if tier == "thorough":
        return variants
    L = len(variants)
    c = min(L, 8 if many else 4)
    step = max(1, L // c)
    return [variants[(seed * 7 + salt * 3 + t * step) % L] for t in range(c)]


def cases(tier, seed):
    out = []
    i = 0
    for rules, kinds, invk in ((RULES_M11, KINDS_M11, INV_M11), (RULES_0INF, KINDS_0INF, INV_0INF)):
        for ri, rule in enumerate(rules):
            for kind in kinds:
                variants = [p for k, p in _tf_grid([kind])]
                for p in _pick(variants, tier, seed, ri, kind in ("Knowles", "Handy", "HandyMod")):
                    i += 1
                    for n in _ns(tier, seed, i):
                        out.append((c03.CLS[kind], {"rule": rule, "n": n, "tf": {"kind": kind, **p}}, 1.0 + n / 40))
            for kind in invk:
                variants = [p for k, p in _tf_grid([kind]) if (kind in INV_M11 and p.get("rmin") in (0.0, 1.0)) or (kind in INV_0INF and p.get("rmin", 0.0) == 0.0 and p.get("v", 0) < 2)]
                for p in _pick(variants, tier, seed, ri + 5, kind in ("Knowles", "Handy", "HandyMod")):
                    i += 1
                    for n in _ns(tier, seed, i):
                        out.append(("InverseRTransform", {"rule": rule, "n": n, "tf": {"kind": kind, **p}, "inv": True}, 1.0 + n / 40))
    # chain T -> Inverse(T)
    for j, (kind, p) in enumerate(_tf_grid(["Becke", "MultiExp", "Knowles", "Handy", "HandyMod", "LinearFinite"])):
        if tier == "quick" and j % 6 != seed % 6:
            continue
        for rule in ("GaussLegendre", "GaussChebyshev", "MidPoint", "FejerFirst"):
            for n in ((7, 30) if tier == "quick" else (3, 7, 16, 30, 60)):
                out.append(("chain", {"rule": rule, "n": n, "tf": {"kind": kind, **p}}, 1.5))
    for k in range(200 if tier == "quick" else 2000):
        out.append(("subdomain", {"k": k}, 1.0))
    for n in NS_ALL:
        for k in range(1 if tier == "quick" else 6):
            out.append(("gl-linear-exactness", {"n": n, "k": k}, 1.0))
    for kind, p in _tf_grid(["Becke", "MultiExp", "Knowles", "Handy"]):
        if p["rmin"] != 0.0:
            continue
        for n in (60, 120):
            for k in range(1 if tier == "quick" else 5):
                out.append(("exp-integral", {"n": n, "tf": {"kind": kind, **p}, "k": k}, 1.5))
    for z in (1, 6, 8, 17, 26) if tier == "quick" else range(1, 37):
        out.append(("incidental", {"atnum": z}, 2.0))
    # ---- input classes beyond "fresh transform x shipped float rule":
    # (a) ONE transform object applied to several different grids of equal class and size in sequence,
    # (b) hand-made OneDGrids whose nodes are stored as integers (int64/int32) or float32,
    # (c) structured boundary parameter values x numeric spellings (C03's list)
    j = 0
    for dom, kinds, invk in (("m11", KINDS_M11, INV_M11), ("0inf", KINDS_0INF, INV_0INF)):
        for inv, kk in ((False, kinds), (True, invk)):
            for kind in kk:
                variants = [p for k, p in _tf_grid([kind]) if p.get("bmode", "explicit") == "explicit"]
                if inv:
                    variants = [p for p in variants if (kind in INV_M11 and p.get("rmin") in (0.0, 1.0)) or (kind in INV_0INF and p.get("rmin", 0.0) == 0.0 and p.get("v", 0) < 2)]
                many = kind in ("Knowles", "Handy", "HandyMod")
                for p in _pick(variants, tier, seed, j, many) if tier == "quick" else variants:
                    j += 1
                    tfp = {"kind": kind, **p}
                    for n in (5, 9, 21)[:: 1 if tier == "thorough" else 2] if tier == "thorough" else ((5, 9, 21)[(j + seed) % 3],):
                        out.append(("sequence", {"dom": dom, "n": n, "tf": tfp, **({"inv": True} if inv else {})}, 3.0))
                    for gv in DTYPE_GRIDS[dom]:
                        if tier == "quick" and (j + len(gv)) % 2 != seed % 2 and not gv.startswith("int64"):
                            continue
                        out.append(("dtype-grid", {"dom": dom, "grid": gv, "tf": tfp, **({"inv": True} if inv else {})}, 1.0))
    # (d) LARGE rules whose nodes crowd both ends (element-wise weight identity at every node, also the ones next to the ends)
    big = [(r, n) for r in LARGE_RULES for n in LARGE_N if not (r == "GaussLegendre" and n == 1000)]  # leggauss(1000) alone takes 8 s
    j = 0
    for inv, kk in ((False, KINDS_M11), (True, INV_M11)):
        for kind in kk:
            variants = [p for k, p in _tf_grid([kind])]
            if inv:
                variants = [p for p in variants if p.get("rmin") in (0.0, 1.0)]
            nv = 6 if tier == "quick" else 24
            for t in range(nv):
                j += 1
                p = variants[(seed * 5 + j * 7 + t * max(1, len(variants) // nv)) % len(variants)]
                combos = [big[(j + seed + t) % len(big)]] if tier == "quick" else big[(j + t) % 2 :: 2]
                for r, n in combos:
                    out.append(("large-n", {"rule": r, "n": n, "tf": {"kind": kind, **p}, **({"inv": True} if inv else {})}, 4.0 + n / 100))
    for kind in KINDS_0INF:
        variants = [p for k, p in _tf_grid([kind])]
        for t, n in enumerate((200, 500, 1000) if tier == "thorough" else ((200, 500, 1000)[seed % 3],)):
            out.append(("large-n", {"rule": "UniformInteger", "n": n, "tf": {"kind": kind, **variants[(seed + t) % len(variants)]}}, 4.0 + n / 100))
    # (e) positional (documented order, literal table) vs keyword construction: every transform class, both flag values,
    #     b given / learned; every quadrature class with all its documented parameters
    for kind, p in c03.construction_sets():
        out.append(("construction", {"tf": {"kind": kind, **p}}, 1.0))
    for q in sorted(sig.QUADRATURE_ORDER):
        out.append(("construction", {"quad": q}, 1.0))
    # (g) InverseRTransform nested to depth 2 (over every base) and 3 (over the bases whose codomain can contain the rule's domain),
    #     as ordinary transform objects: rules incl. closed ones, sequences on one object, exactness transport
    j = 0
    for dom, kinds, invk, rules in (("m11", KINDS_M11, INV_M11, ("GaussLegendre", "GaussChebyshev", "ClenshawCurtis", "MidPoint", "TanhSinh", "FejerSecond")), ("0inf", KINDS_0INF, INV_0INF, ("UniformInteger", "GaussLaguerre", "ExpSinh", "SingleExp"))):
        for inv, kk in ((False, kinds), (True, invk)):
            for kind in kk:
                variants = [p for k, p in _tf_grid([kind])]
                if inv:
                    variants = [p for p in variants if (kind in INV_M11 and p.get("rmin") in (0.0, 1.0)) or (kind in INV_0INF and p.get("rmin", 0.0) == 0.0 and p.get("v", 0) < 2)]
                nv = min(len(variants), 3 if tier == "quick" else 24)
                for t in range(nv):
                    j += 1
                    p = variants[(seed * 5 + j * 7 + t * max(1, len(variants) // nv)) % len(variants)]
                    for q in range(2 if tier == "quick" else 3):
                        rule = rules[(j + q + seed) % len(rules)]
                        n = NS_ALL[(5 * j + 11 * q + seed) % len(NS_ALL)]
                        out.append(("nested", {"rule": rule, "n": n, "tf": {"kind": kind, **p, "nest": True}, **({"inv": True} if inv else {})}, 1.5))
                    if t == 0:
                        out.append(("sequence", {"dom": dom, "n": (5, 9, 21)[(j + seed) % 3], "tf": {"kind": kind, **p, **({"bmode": "explicit"} if "bmode" in p else {}), "nest": True}, **({"inv": True} if inv else {})}, 3.0))
    for n in (2, 5, 16, 30):
        out.append(("gl-linear-exactness", {"n": n, "k": 0, "nest": 2}, 1.0))
        out.append(("gl-linear-exactness", {"n": n, "k": 1, "nest": 4}, 1.0))
    # (f) clones of the transform (copy / deepcopy / pickle; before and after b was learned), equal-but-not-identical flag values,
    #     warnings turned into errors: the transformed grid is the same
    for kind, p in c03.construction_sets():
        out.append(("clones", {"tf": {"kind": kind, **p}}, 1.5))
        out.append(("warnings-as-errors", {"tf": {"kind": kind, **p}}, 1.0))
        if "trim" in p:
            out.append(("option-values", {"tf": {"kind": kind, **p}}, 1.0))
    for kind, p in c03._boundary():
        rules = ("GaussLegendre:8", "Trapezoidal:5", "int64-simpson") if kind in KINDS_M11 else ("UniformInteger:6", "GaussLaguerre:6")
        for r in rules:
            out.append(("boundary", {"rule": r, "tf": {"kind": kind, **p}}, 1.0))
    # pinned witnesses of the open findings (both tiers, first)
    out.append(("pinned", {"what": "multiexp-negative-weights"}, 1e9))
    out.append(("pinned", {"what": "inverse-multiexp-negative-weights"}, 1e9))
    out.append(("pinned", {"what": "hyperbolic-nan-domain"}, 1e9))
    out.append(("pinned", {"what": "inverse-becke-nan-domain"}, 1e9))
    out.append(("pinned", {"what": "inverse-handy-nan-domain"}, 1e9))
    out.append(("pinned", {"what": "inverse-hyperbolic-nan-domain"}, 1e9))
    out.append(("pinned", {"what": "knowles-noninteger-nan-domain"}, 1e9))
    out.append(("pinned", {"what": "handy-node-above-1e16"}, 1e9))
    return out


# ------------------------------------------------------------------------------------------------ building blocks
_big_rules = {}


def make_rule(name, n, rng=None):
    import grid.onedgrid as og

    if n >= 200 and name in LARGE_RULES + ["UniformInteger"]:
        # parameter-free large rules are built once per worker (GaussLegendre(500) takes ~3 s); the library never mutates them
        if (name, n) not in _big_rules:
            _big_rules[(name, n)] = _make_rule(name, n, None)
        return _big_rules[(name, n)]
    return _make_rule(name, n, rng)


def _make_rule(name, n, rng=None):
    import grid.onedgrid as og

    if name in ODD_ONLY and n % 2 == 0:
        n += 1
    m = (n - 1) // 2
    if name == "ExpSinh":
        return og.ExpSinh(n, h=min(1.0, 3.5 / max(m, 1)))
    if name == "TanhSinh":
        return og.TanhSinh(n, delta=min(0.1, 3.0 / max(m, 1)) if m > 30 else 0.1)
    if name == "ClenshawCurtis-interior":
        return og.ClenshawCurtis(n)[1:-1]  # the closed rule without its two end nodes
    if name == "TrefethenGeneral":
        return og.TrefethenGeneral(n, og.FejerFirst, d=5)
    if name == "TrefethenStripGeneral":
        return og.TrefethenStripGeneral(n, og.GaussLegendre, rho=1.2)
    if name == "GaussLaguerre" and rng is not None and rng.random() < 0.3:
        return og.GaussLaguerre(n, alpha=float(rng.choice([0.5, 1.0, 2.0])))
    return getattr(og, name)(n)


def singular_ends(kind, p, inv):
    """Ends of the transform's domain where the map (or its derivative) is singular: nodes ON them are inadmissible."""
    km = p.get("k", p.get("m", 1))
    if not inv:
        return {"Becke": ("hi",), "Knowles": ("hi",), "Handy": ("hi",), "MultiExp": ("lo",)}.get(kind, ())
    # InverseRTransform(T): T.inverse is singular where T' = 0, i.e. at r = rmin for k, m > 1
    if kind in ("Knowles", "Handy", "HandyMod") and km != 1:
        return ("lo",)
    return ()


def build_tf(ctx, tfp, inv, rule_grid):
    """Instantiate the transform for this pairing (C03's builder + constraints that depend on the rule)."""
    import grid.rtransform as rt

    p = dict(tfp)
    rng = ctx.rng
    fixed = dict(p.get("fixed", {}))
    xmax = float(np.max(rule_grid.points[np.isfinite(rule_grid.points)]))
    if p["kind"] == "Hyperbolic":
        dom_hi = rule_grid.domain[1] if rule_grid.domain is not None and np.isfinite(rule_grid.domain[1]) else 0.0
        top = max(xmax, dom_hi, rule_grid.size - 1, 1.0)  # pole 1/b beyond the nodes AND beyond a finite domain end
        fixed.setdefault("b", float(rng.uniform(0.05, 0.9)) / top)
    if p["kind"] in ("LinearInfinite", "Exp", "Power") and p.get("bmode") == "explicit":
        fixed.setdefault("b", xmax * float(10 ** rng.uniform(-0.5, 0.5)))
    if inv and p["kind"] in INV_M11 and rule_grid.domain[0] < 0:
        # wrapper domain (rmin, rmax) must contain [-1, 1]
        p["rmin"] = -1.0 if p["rmin"] == 1.0 else -1.5
        lo_size = 2.0 if p["rmin"] == -1.0 else 2.5
        m = p.get("m", 1)
        base = (2.0**m - 1) if p["kind"] == "HandyMod" else 0.0
        fixed.setdefault("rmax", p["rmin"] + max(base + 0.1, lo_size) + float(10 ** rng.uniform(-1, 2.5)))
    if fixed:
        p["fixed"] = fixed
    if "pos" not in p:
        p["pos"] = bool(rng.integers(2))  # every second transform object is constructed positionally (documented order)
        fsp = c03.FLAG_CYCLE[int(rng.integers(4))]
        if fsp and "trim" in p:
            p["flagspell"] = fsp  # trimming flag as np.bool_ / int / np.int64
        if rng.random() < 0.3:
            p["clone"] = roundtrip.pick(rng)[0]  # the object went through copy / deepcopy / pickle
    I = c03.build(p, rng)
    tf = rt.InverseRTransform(I.tf) if inv else I.tf
    if p.get("nest"):
        # transforms built from transforms: two more inversions (depth 2 behaves like T, depth 3 like InverseRTransform(T))
        tf = rt.InverseRTransform(rt.InverseRTransform(tf))
        if rng.random() < 0.3:
            tf = roundtrip.clone(tf, roundtrip.pick(rng)[0])
        ctx.count("nested-wrapper-objects:depth-" + ("3" if inv else "2"))
    return I, tf


def admissible(I, inv, tf, g):
    """No node on a singular end of the map."""
    ends = singular_ends(I.kind, {**I.args}, inv)
    lo, hi = tf.domain
    x = g.points
    if "lo" in ends and np.any(x <= lo):
        return False
    if inv and "lo" in ends:
        # a node whose image is indistinguishable (in float64) from the end where T' = 0, e.g. ExpExp(121)'s first node
        # 1.5e-178 through Inverse(Handy): T.inverse gives exactly -1 and 1/T'(-1) is the documented ZeroDivisionError
        with np.errstate(all="ignore"):
            img = np.asarray(tf.transform(x), dtype=float)
        if np.any(img <= min(tf.codomain)):
            return False
    if "hi" in ends and np.any(x >= hi):
        return False
    if type(tf).__name__ == "InverseRTransform" and type(getattr(tf, "_tfm", None)).__name__ == "InverseRTransform":
        # nested wrappers evaluate 1 / (1 / T'(x_base)): a node whose base point has T' = 0 (closed rule at x = -1 for k, m > 1, or an
        # image that collapsed onto rmin) or T' = inf hits the documented ZeroDivisionError of the inner wrapper (T itself gives weight 0)
        with np.errstate(all="ignore"):
            xb = np.asarray(I.tf.inverse(x), dtype=float) if inv else np.asarray(x, dtype=float)
            d = np.asarray(I.tf.deriv(xb), dtype=float)
            # the chain goes through r = T(x_base) and back: where r - rmin is below the resolution of r the way back lands ON the end
            d2 = np.asarray(I.tf.deriv(np.asarray(I.tf.inverse(np.asarray(I.tf.transform(xb), dtype=float)), dtype=float)), dtype=float)
        if np.any(d == 0) or not np.all(np.isfinite(d)) or np.any(d2 == 0) or not np.all(np.isfinite(d2)):
            return False
    if inv and type(getattr(tf, "_tfm", None)).__name__ == "InverseRTransform":
        # depth-3 wrapper: a node whose pre-image T.inverse(r) rounds onto an end point of T's domain makes the inner wrapper's
        # derivative 1/T' = 1/inf = 0, and the next level raises the documented ZeroDivisionError (depth 1 gives a zero weight)
        with np.errstate(all="ignore"):
            img = np.asarray(tf.transform(x), dtype=float)
        if np.any(img <= min(tf.codomain)) or np.any(img >= max(tf.codomain)):
            return False
    return bool(np.all(np.isfinite(x)) and np.all(np.isfinite(g.weights)))


def smooth_g(rng):
    c = rng.normal(size=3)
    beta = 10 ** rng.uniform(-2, 0.5, 3)
    om = 10 ** rng.uniform(-2, 0.3, 3)
    ph = rng.uniform(0, 2 * np.pi, 3)

    def g(r):
        r = np.asarray(r, dtype=nd.LD)
        with np.errstate(all="ignore"):
            v = sum(c[j] * np.exp(-beta[j] * np.abs(r)) * np.cos(om[j] * r + ph[j]) for j in range(3))
        v = np.where(np.isfinite(r), v, 0.0)  # all terms vanish at infinity
        return v

    return g


def transform_and_check(ctx, tf, g, subject_hint):
    """Call the real API under the monitor; evaluate the sum identity with the monitor's oracle values."""
    sub = f"{mon.describe(tf)}|src={mon.src_label(g.domain)}"
    res = {}
    try:
        res["new"] = tf.transform_1d_grid(g)
    except Exception as exc:  # noqa: BLE001
        from gridrv import core

        if not core.is_library_exception(exc):
            raise
        if g.domain is None and isinstance(exc, TypeError):
            # outside the quantifier of the property (every shipped rule has a domain) but the method has an explicit
            # ``if new_domain is not None`` branch: recorded, not decided
            ctx.observe("transform_1d_grid raises TypeError for a OneDGrid constructed without domain (domain check subscripts None before the None branch)", transform=mon.describe(tf))
            return None, None
        if subject_hint == "chain-back" and isinstance(exc, ValueError) and "does not match the transformation domain" in str(exc):
            lo, hi = tf.domain
            if g.domain[0] >= lo - 1e-9 * max(1, abs(lo)) and g.domain[1] <= hi + 1e-9 * max(1, abs(hi)):
                ctx.observe("InverseRTransform(T) rejects the grid produced by T: T.transform(1) exceeds the declared codomain end by rounding", transform=mon.describe(tf), grid_domain=list(g.domain), tf_domain=[lo, hi])
                return None, None
        sig = f"raised:{type(exc).__name__}"
        if isinstance(exc, ValueError) and "above domain" in str(exc):
            with np.errstate(all="ignore"):
                img = np.asarray(tf.transform(g.points), dtype=float)
            base, depth = tf, 0  # Inverse(Inverse(T)) is labelled (and behaves) as T: read the trimming flag of T
            while type(base).__name__ == "InverseRTransform" and hasattr(base, "_tfm"):
                base, depth = base._tfm, depth + 1
            trimmed = getattr(base if depth % 2 == 0 else tf, "trim_inf", False)
            if trimmed and np.nanmax(img) > 1e16 and np.all(np.isfinite(img)):
                sig += ",finite-node-image-above-trimmed-domain-end-1e16"
        ctx.fail("transform-succeeds", sub, sig, detail={"error": str(exc)[:200], "hint": subject_hint})
        return None, None
    ctx.check("transform-succeeds", sub, True)
    new = res["new"]
    o = mon.last_result()
    if o is None:
        return new, None
    d = o["decided"] & np.isfinite(np.asarray(o["r_ld"], dtype=float))
    if d.any():
        gfun = smooth_g(ctx.rng)
        w = np.asarray(g.weights, dtype=nd.LD)
        gv_new = gfun(new.points)
        gv_ref = gfun(o["r_ld"])
        absJ = np.abs(o["J"]).astype(nd.LD)
        if d.all():
            lhs = nd.LD(new.integrate(np.asarray(gv_new, dtype=float)))
            ctx.count("sum-identity-through-integrate")
        else:
            lhs = np.sum(gv_new[d] * np.asarray(new.weights, dtype=nd.LD)[d])
        rhs = np.sum(gv_ref[d] * absJ[d] * w[d])
        mag = float(np.sum(np.abs(gv_ref[d]) * absJ[d] * np.abs(w[d])))
        # tolerance: Jacobian tolerance of the monitor + change of g between float64 and long-double images (Lipschitz, <= sum beta+omega)
        tolJ = float(np.sum(np.abs(gv_ref[d]) * o["tol"][d] * np.abs(w[d])))  # the monitor's per-node Jacobian tolerance (incl. float32 slack)
        dr = np.abs(np.asarray(new.points, dtype=nd.LD)[d] - o["r_ld"][d])
        tolg = float(np.sum(10.0 * dr * absJ[d] * np.abs(w[d])))
        tol = tolJ + tolg + 1e-12 * mag + 1e-300
        dev = float(abs(lhs - rhs))
        sig = "sum==-reference" if abs(float(lhs + rhs)) <= tol and dev > tol else "sum-mismatch"
        ctx.check("sum-identity", sub, dev / tol, 1.0, sig=sig, detail={"lhs": float(lhs), "rhs": float(rhs), "tol": tol, "n_nodes": int(d.sum())})
        ctx.hit("decided:sum-identity")
    else:
        ctx.count("calls-without-decided-node")
    return new, o


# ------------------------------------------------------------------------------------------------ run
def setup(ctx):
    nd.self_test()
    mon.install(ctx)
    # the monitor must see a hand-made wrong grid: self-test of the |J| oracle on an analytic map
    from grid.rtransform import BeckeRTransform

    x = np.array([-0.9, 0.0, 0.5, 0.99])
    J, err, _ = mon.jacobian(BeckeRTransform(0.0, 1.5), x)
    ref = 2 * 1.5 / (1 - x) ** 2
    if not np.all(np.abs(J - ref) <= 1e-9 * ref) or not np.all(err <= 1e-9 * ref):
        raise AssertionError("Jacobian oracle self-test failed")


def run_case(ctx, family, params):
    import grid.onedgrid as og
    import grid.rtransform as rt
    from grid.basegrid import OneDGrid

    if family in FAM_TF or family in ("large-n", "nested"):
        g = make_rule(params["rule"], params["n"], ctx.rng)
        inv = bool(params.get("inv"))
        I, tf = build_tf(ctx, params["tf"], inv, g)
        ctx.case_note("tf", c03._note(I))
        if not admissible(I, inv, tf, g):
            ctx.count("inadmissible-pairing-skipped:" + ("node-on-singular-end" if np.all(np.isfinite(g.points)) else "rule-nodes-not-finite"))
            ctx.trivial()
            return
        new, o = transform_and_check(ctx, tf, g, params["rule"])
        if o is None or not o["decided"].any():
            ctx.trivial()
    elif family == "chain":
        g = make_rule(params["rule"], params["n"])
        I, tf = build_tf(ctx, params["tf"], False, g)
        mid, o = transform_and_check(ctx, tf, g, "chain-forward")
        if mid is None:
            ctx.trivial()
            return
        inv = rt.InverseRTransform(tf)
        if np.any(np.isnan(mid.domain)) or not admissible(I, True, inv, mid):
            # garbage in (NaN end from the first call) or a node collapsed onto r = rmin where T' = 0: not an admissible input
            ctx.count("chain-back-skipped:" + ("nan-domain" if np.any(np.isnan(mid.domain)) else "node-on-singular-end"))
            return
        # both calls are decided pointwise by the attached monitor (a grid-level comparison with the original would only
        # re-measure the conditioning of x -> r -> x)
        transform_and_check(ctx, inv, mid, "chain-back")
    elif family == "subdomain":
        rng = ctx.rng
        m11 = rng.random() < 0.5
        kinds = KINDS_M11 if m11 else KINDS_0INF
        pool = _tf_grid(kinds)
        kind, p = pool[int(rng.integers(len(pool)))]
        n = int(rng.integers(1, 25))
        if m11:
            a, b = np.sort(rng.uniform(-0.98, 0.98, 2))
        else:
            a = float(10 ** rng.uniform(-3, 0.5))
            b = a + float(10 ** rng.uniform(-2, 1.5))
        if b - a < 1e-3:
            b = a + 1e-3
        pts = rng.uniform(a, b, n)
        mode = int(rng.integers(4))
        if mode != 3:
            pts = np.sort(pts)
        if mode == 1 and n >= 2:
            pts[0], pts[-1] = a, b  # nodes on the (regular, interior) ends of the user domain
        w = rng.uniform(0.1, 1.0, n) * (b - a) / n
        dom = None if mode == 2 else (float(a), float(b))
        g = OneDGrid(pts, w, dom)
        I, tf = build_tf(ctx, {"kind": kind, **p}, False, g)
        ctx.case_note("tf", c03._note(I))
        ctx.count(f"subdomain-mode-{mode}")
        new, o = transform_and_check(ctx, tf, g, "user-grid")
        if o is None or not o["decided"].any():
            ctx.trivial()
    elif family == "gl-linear-exactness":
        rng = ctx.rng
        n = params["n"]
        a = float(rng.uniform(-5, 5)) if rng.random() < 0.7 else 0.0
        b = a + float(10 ** rng.uniform(-1, 2))
        g = og.GaussLegendre(n)
        tf = rt.LinearFiniteRTransform(a, b)
        for _ in range(params.get("nest", 0)):
            tf = rt.InverseRTransform(tf)  # an even number of inversions is the linear map itself: exactness is transported
        new, o = transform_and_check(ctx, tf, g, "GaussLegendre")
        if new is None:
            return
        deg = 2 * n - 1
        K = deg // 2 + 1
        t = (2 * new.points - (a + b)) / (b - a)
        V = L.legvander(t, K) * np.sqrt((2 * np.arange(K + 1) + 1) / (b - a))  # orthonormal on [a, b]
        G = (V * new.weights[:, None]).T @ V
        jj, kk = np.indices(G.shape)
        mask = jj + kk <= deg
        err = float(np.max(np.abs(G - np.eye(K + 1))[mask]))
        ctx.check("gl-linear-exactness", "GaussLegendre->LinearFiniteRTransform", err, 1e-9, sig="transported-rule-not-exact-to-2n-1", detail={"n": n, "a": a, "b": b})
        ctx.check("gl-linear-exactness", "GaussLegendre->LinearFiniteRTransform:length", abs(float(np.sum(new.weights)) - (b - a)) / (b - a), 1e-12, sig="weights-do-not-sum-to-b-a")
    elif family == "exp-integral":
        rng = ctx.rng
        g = og.GaussLegendre(params["n"])
        I, tf = build_tf(ctx, params["tf"], False, g)
        R = I.args["R"]
        beta = float(rng.uniform(2.0, 4.0)) / R
        ctx.case_note("tf", c03._note(I))
        new, o = transform_and_check(ctx, tf, g, "exp-integral")
        if new is None:
            ctx.trivial()
            return
        with np.errstate(all="ignore"):
            val = float(new.integrate(np.exp(-beta * new.points))) * beta
        sig = "integral==-1/beta" if abs(val + 1) <= TOL_EXPINT else ("integral-negative" if val < 0 else "integral-magnitude")
        ctx.check("exp-integral", mon.describe(tf), abs(val - 1), TOL_EXPINT, sig=sig, detail={"beta_times_integral": val, "n": params["n"], "args": c03._note(I)})
        ctx.case_note("beta*I", val)
    elif family == "incidental":
        from grid.atomgrid import AtomGrid

        before = ctx.hooks.get("BaseTransform.transform_1d_grid", 0)
        with ctx.guard("transform-succeeds", "AtomGrid.from_preset(default rgrid)"):
            AtomGrid.from_preset(params["atnum"], preset="coarse")
        fired = ctx.hooks.get("BaseTransform.transform_1d_grid", 0) - before
        ctx.check("monitor-fires-on-internal-calls", "AtomGrid.from_preset", fired >= 1, sig="monitor-not-reached")
        o = mon.last_result()
        if o is None or not o["decided"].any():
            ctx.trivial()
    elif family == "sequence":
        _sequence(ctx, params)
    elif family == "dtype-grid":
        g = hand_grid(params["grid"], params["dom"], ctx.rng, bool(params.get("inv")) and params["tf"]["kind"] in ("Knowles", "Handy", "HandyMod"))
        inv = bool(params.get("inv"))
        I, tf = build_tf(ctx, params["tf"], inv, g)
        ctx.case_note("tf", c03._note(I))
        if not admissible(I, inv, tf, g):
            # e.g. trapezoid / Simpson end nodes through a map that is singular at that end
            ctx.count("inadmissible-pairing-skipped:node-on-singular-end")
            ctx.trivial()
            return
        ctx.count("dtype-grid:" + params["grid"])
        new, o = transform_and_check(ctx, tf, g, "dtype-grid")
        if o is None or not o["decided"].any():
            ctx.trivial()
    elif family == "boundary":
        name, _, nn = params["rule"].partition(":")
        g = hand_grid(name, "m11", ctx.rng, False) if not nn else make_rule(name, int(nn))
        I, tf = build_tf(ctx, params["tf"], False, g)
        ctx.case_note("tf", c03._note(I))
        if not admissible(I, False, tf, g):
            ctx.count("inadmissible-pairing-skipped:node-on-singular-end")
            ctx.trivial()
            return
        new, o = transform_and_check(ctx, tf, g, "boundary")
        if o is None or not o["decided"].any():
            ctx.trivial()
    elif family == "construction":
        _construction(ctx, params)
    elif family in ("clones", "option-values", "warnings-as-errors"):
        _object_forms(ctx, family, params)
    elif family == "pinned":
        _pinned(ctx, params["what"])
    else:
        raise ValueError(family)


def hand_grid(variant, dom, rng, skip_zero):
    """Hand-made OneDGrids: integer-dtype nodes (the only integer nodes of [-1,1] are -1, 0, 1: midpoint, trapezoid,
    Simpson; 0..n-1 on the half line) and float32 nodes / weights."""
    from grid.basegrid import OneDGrid

    dt, _, what = variant.partition("-")
    if dt in ("int64", "int32"):
        idt = np.int64 if dt == "int64" else np.int32
        intw = what.endswith("-intweights")
        what = what.replace("-intweights", "")
        if what == "midpoint":
            pts, w = np.array([0], dtype=idt), np.array([2.0])
        elif what == "trapezoid":
            pts, w = np.array([-1, 1], dtype=idt), np.array([1.0, 1.0])
        elif what == "simpson":
            pts, w = np.array([-1, 0, 1], dtype=idt), (np.array([1, 4, 1], dtype=idt) if intw else np.array([1.0, 4.0, 1.0]) / 3)
        elif what == "arange":
            n = int(rng.integers(3, 14))
            pts = np.arange(1 if skip_zero else 0, n + (1 if skip_zero else 0), dtype=idt)
            w = np.ones(n, dtype=idt) if intw else np.ones(n)
        else:
            raise ValueError(variant)
        return OneDGrid(pts, w, (-1, 1) if dom == "m11" else (0, np.inf))
    n = int(rng.integers(3, 16))
    if dom == "m11":
        pts = np.sort(rng.uniform(-0.85, 0.85, n))
        w = rng.uniform(0.2, 1.0, n) * 2 / n
        d = (-1, 1)
    else:
        pts = np.sort(10 ** rng.uniform(-1, 1, n))
        w = rng.uniform(0.2, 1.0, n)
        d = (0, np.inf)
    if what == "nodes+weights":
        return OneDGrid(pts.astype(np.float32), w.astype(np.float32), d)
    return OneDGrid(pts, w.astype(np.float32), d)


def _sequence(ctx, params):
    """ONE transform object applied to several grids in a row: equal rule class and size but different parameters, hand-made
    grids, the two halves of one grid, the same grid twice.  Every call is decided by the attached post-condition."""
    import grid.onedgrid as og
    from grid.basegrid import OneDGrid

    rng = ctx.rng
    n = params["n"]
    inv = bool(params.get("inv"))
    if params["dom"] == "m11":
        a = np.sort(rng.uniform(-0.95, 0.95, n))
        b = np.sort(rng.uniform(-0.95, 0.95, n))
        A = OneDGrid(a, rng.uniform(0.2, 1, n) * 2 / n, (-1, 1))
        B = OneDGrid(b, rng.uniform(0.2, 1, n) * 2 / n, (-1, 1))
        G = og.GaussLegendre(2 * n)
        grids = [og.TanhSinh(n, 0.1), og.TanhSinh(n, 0.25), og.SingleTanh(n, 0.1), og.SingleTanh(n, 0.3), og.TrefethenStripGC2(n, 1.1), og.TrefethenStripGC2(n, 1.4), og.TrefethenGC2(n, 5), og.TrefethenGC2(n, 9), A, B, G[:n], G[n:], og.GaussLegendre(n), A]
    else:
        a = np.sort(10 ** rng.uniform(-1.5, 1.2, n))
        b = np.sort(10 ** rng.uniform(-1.5, 1.2, n))
        A = OneDGrid(a, rng.uniform(0.2, 1, n), (0, np.inf))
        B = OneDGrid(b, rng.uniform(0.2, 1, n), (0, np.inf))
        U = og.UniformInteger(2 * n)
        grids = [og.GaussLaguerre(n, 0.0), og.GaussLaguerre(n, 1.5), og.SingleExp(n, 0.1), og.SingleExp(n, 0.3), og.SingleArcSinhExp(n, 0.1), og.SingleArcSinhExp(n, 0.25), A, B, U[n:], U[:n], og.GaussLaguerre(n, 0.0), A]
    rng.shuffle(grids)
    grids.append(grids[0])  # the first grid again at the end
    allpts = np.concatenate([np.asarray(g.points, dtype=float) for g in grids])
    hull = OneDGrid(np.sort(allpts), np.ones(allpts.size), grids[0].domain)
    I, tf = build_tf(ctx, params["tf"], inv, hull)
    ctx.case_note("tf", c03._note(I))
    first = {}
    ncalls = 0
    for g in grids:
        if not admissible(I, inv, tf, g):
            ctx.count("inadmissible-pairing-skipped:node-on-singular-end")
            continue
        new, o = transform_and_check(ctx, tf, g, "sequence")
        if new is None:
            continue
        ncalls += 1
        key = id(g)
        if key in first:
            p0, w0, d0 = first[key]
            same = np.array_equal(p0, new.points, equal_nan=True) and np.array_equal(w0, new.weights, equal_nan=True) and repr(d0) == repr(new.domain)
            ctx.check("repeat-call-same-result", f"{mon.describe(tf)}|src={mon.src_label(g.domain)}", same, sig="same-grid-transformed-twice-differs")
            ctx.hit("decided:sequence-repeat")
        else:
            first[key] = (new.points.copy(), new.weights.copy(), new.domain)
    ctx.count("sequence-calls", ncalls)
    if ncalls < 2:
        ctx.trivial()


def _construction(ctx, params):
    """Positional vs keyword construction; transforms: attributes, outputs and the transformed grid; quadrature classes: the grid."""
    import grid.onedgrid as og
    import grid.rtransform as rt
    from grid.basegrid import OneDGrid

    rng = ctx.rng
    if "quad" in params:
        name = params["quad"]
        order = sig.QUADRATURE_ORDER[name]
        n = int(rng.integers(3, 12)) | 1
        vals = {"npoints": n, "alpha": float(rng.choice([0.5, 1.0, 2.0])), "delta": float(rng.uniform(0.05, 0.3)), "d": int(rng.choice([1, 5, 9])), "rho": float(rng.uniform(1.05, 1.6)), "h": float(rng.uniform(0.05, 0.4)), "quadrature": og.FejerFirst}
        if name == "OneDGrid":
            pts = np.sort(rng.uniform(-0.9, 0.9, n))
            vals = {"points": pts, "weights": rng.uniform(0.1, 1, n), "domain": (-1, 1)}
            cls = OneDGrid
        else:
            cls = getattr(og, name)
        gp, gk = sig.construct_both(ctx, cls, order, vals, name)
        if gp is not None and gk is not None:
            sig.compare_grids(ctx, name, gp, gk)
            if len(order) > 1 and name != "OneDGrid":
                # the extra parameter really arrived: a second value gives another grid
                alt = dict(vals)
                key = [k for k in order if k not in ("npoints", "quadrature")][0]
                alt[key] = {"alpha": vals["alpha"] + 1.5, "delta": vals["delta"] * 1.7, "d": 5 if vals["d"] != 5 else 9, "rho": vals["rho"] + 0.3, "h": vals["h"] * 1.6}[key]
                g2 = sig.positional(cls, order, alt)
                ctx.check("positional-binds-documented-order", name, not (sig._same_array(g2.points, gp.points) and sig._same_array(g2.weights, gp.weights)), sig=f"parameter-{key}-has-no-effect-when-passed-positionally")
        return
    tfp = params["tf"]
    dom_m11 = tfp["kind"] in KINDS_M11
    g = og.GaussLegendre(9) if dom_m11 else og.UniformInteger(7)
    I, _ = build_tf(ctx, {**tfp, "pos": False}, False, g)
    cname = c03.CLS[I.kind]
    cls = getattr(rt, cname)
    order = sig.TRANSFORM_ORDER[cname]
    pos, kw = sig.construct_both(ctx, cls, order, I.args, cname)
    if pos is None or kw is None:
        return
    x = np.asarray(g.points, dtype=float)
    sig.compare_transforms(ctx, cname, pos, kw, sig.TRANSFORM_ATTRS[cname], I.args, x, methods=("transform", "deriv", "inverse"))
    res = {}
    with ctx.guard("positional-equals-keyword", cname + ".transform_1d_grid"):
        res["k"] = kw.transform_1d_grid(g)
        res["p"] = pos.transform_1d_grid(g)
    if "p" in res:
        sig.compare_grids(ctx, cname + ".transform_1d_grid", res["p"], res["k"])


def _grid_vec(g):
    return np.concatenate([np.asarray(g.points, dtype=float), np.asarray(g.weights, dtype=float), np.asarray(g.domain, dtype=float)])


def _object_forms(ctx, family, params):
    """Clones / flag spellings / warnings-as-errors: the grid produced by transform_1d_grid is the one of the plain object
    (every call also goes through the attached post-condition)."""
    import warnings

    import grid.onedgrid as og
    import grid.rtransform as rt

    tfp = params["tf"]
    m11 = tfp["kind"] in KINDS_M11
    rules = [og.GaussLegendre(8), og.Trapezoidal(5)] if m11 else ([og.UniformInteger(7)] if tfp["kind"] == "Power" else [og.UniformInteger(7), og.GaussLaguerre(6)])
    I, _ = build_tf(ctx, {**tfp, "pos": False}, False, rules[0] if m11 else og.UniformInteger(20))
    cname = c03.CLS[I.kind]
    cls = getattr(rt, cname)
    learned = tfp.get("bmode") == "learned"

    def grid_of(tf, g, label):
        if not admissible(I, False, tf, g):
            # closed rule through a map that is singular at that end: only equality of the outcome is decided, no post-condition
            try:
                with np.errstate(all="ignore"):
                    return _grid_vec(tf.transform_1d_grid(g))
            except Exception as exc:  # noqa: BLE001
                return ("raised", type(exc).__name__)
        new, _o = transform_and_check(ctx, tf, g, label)
        return ("raised", "see transform-succeeds") if new is None else _grid_vec(new)

    def same(a, b):
        if isinstance(a, tuple) or isinstance(b, tuple):
            return a == b
        return a.shape == b.shape and bool(np.array_equal(a, b, equal_nan=True))

    if family == "clones":
        for kind in roundtrip.KINDS:
            for when in ("fresh", "used"):
                orig = cls(**I.args)
                if when == "used":
                    with np.errstate(all="ignore"):
                        orig.transform(np.asarray(rules[0].points, dtype=float))
                res = {}
                with ctx.guard("clone-equals-original", f"{cname}:{kind}"):
                    res["c"] = roundtrip.clone(orig, kind)
                if "c" not in res:
                    continue
                bad = [type(g).__name__ for g in rules if not same(grid_of(orig, g, "clone-orig"), grid_of(res["c"], g, "clone"))]
                if learned and when == "used":
                    bad += [] if (res["c"].b is not None and float(res["c"].b) == float(orig.b)) else ["learned-b"]
                ctx.check("clone-equals-original", f"{cname}:{kind}", not bad, sig=f"{when}-object:transformed-grid-differs:" + ",".join(bad), detail={"args": c03._note(I)})
        ctx.hit("decided:clones")
    elif family == "option-values":
        flag = bool(I.args["trim_inf"])
        ref = [grid_of(cls(**{**I.args, "trim_inf": flag}), g, "flag-literal") for g in rules]
        for label, val in {"np.bool_": np.bool_(flag), "np.True_/np.False_": (np.True_ if flag else np.False_), "int": int(flag), "np.int64": np.int64(flag), "np.int8": np.int8(flag)}.items():
            res = {}
            with ctx.guard("option-value-equals-literal-bool", cname):
                res["tf"] = cls(**{**I.args, "trim_inf": val})
            if "tf" not in res:
                continue
            bad = [type(g).__name__ for g, r in zip(rules, ref) if not same(r, grid_of(res["tf"], g, "flag-" + label))]
            ctx.check("option-value-equals-literal-bool", cname, not bad, sig=f"trim_inf={'on' if flag else 'off'}-as-{label}:transformed-grid-differs:" + ",".join(bad), detail={"args": c03._note(I)})
        ctx.hit("decided:option-values")
    else:
        tf = cls(**I.args)
        guarded = bool(c03.GUARDED_UNDER_W_ERROR.get(cname))
        for g in rules:
            if learned:
                with np.errstate(all="ignore"):
                    tf.transform(np.asarray(g.points, dtype=float))
            quiet = grid_of(tf, g, "filters-default")
            with warnings.catch_warnings():  # restores the worker's filters
                warnings.simplefilter("error")
                with np.errstate(all="warn"):
                    try:
                        loud = _grid_vec(tf.transform_1d_grid(g))
                    except Warning as w:
                        loud = ("warning", type(w).__name__, str(w)[:60])
                    except Exception as exc:  # noqa: BLE001
                        loud = ("raised", type(exc).__name__)
            sub = f"{cname}.transform_1d_grid"
            if isinstance(loud, tuple) and loud[0] == "warning":
                if guarded:
                    ctx.check("guarded-under-W-error", sub, False, sig=f"raises-{loud[1]}-under-W-error", detail={"rule": type(g).__name__, "warning": loud[2], "args": c03._note(I)})
                else:
                    ctx.count(f"raises-under-W-error(not-guarded-by-the-library):{sub}")
            elif guarded:
                ok = same(quiet, loud) if not (isinstance(quiet, tuple) and quiet[0] == "raised") else True
                ctx.check("guarded-under-W-error", sub, ok, sig="grid-under-W-error-differs-from-default-filters", detail={"rule": type(g).__name__})
                ctx.hit("decided:warnings-as-errors")
        if not guarded:
            ctx.trivial()


def _pinned(ctx, what):
    """Deterministic witnesses of the open findings (fixed parameters)."""
    import grid.onedgrid as og
    import grid.rtransform as rt

    if what == "multiexp-negative-weights":
        g, tf = og.GaussLegendre(60), rt.MultiExpRTransform(0.0, 1.0)
        new, _ = transform_and_check(ctx, tf, g, what)
        val = float(new.integrate(np.exp(-new.points)))
        ctx.check("exp-integral", mon.describe(tf), abs(val - 1), TOL_EXPINT, sig="integral==-1/beta" if abs(val + 1) <= TOL_EXPINT else "integral-magnitude", detail={"beta_times_integral": val})
    elif what == "inverse-multiexp-negative-weights":
        transform_and_check(ctx, rt.InverseRTransform(rt.MultiExpRTransform(0.0, 1.5)), og.GaussLaguerre(20), what)
    elif what == "hyperbolic-nan-domain":
        transform_and_check(ctx, rt.HyperbolicRTransform(1.0, 1e-3), og.UniformInteger(5), what)
    elif what == "inverse-becke-nan-domain":
        transform_and_check(ctx, rt.InverseRTransform(rt.BeckeRTransform(0.0, 1.5)), og.GaussLaguerre(10), what)
    elif what == "inverse-handy-nan-domain":
        transform_and_check(ctx, rt.InverseRTransform(rt.HandyRTransform(0.0, 1.5, 2)), og.GaussLaguerre(10), what)
    elif what == "inverse-hyperbolic-nan-domain":
        transform_and_check(ctx, rt.InverseRTransform(rt.HyperbolicRTransform(1.0, 1e-3)), og.GaussLaguerre(10), what)
    elif what == "knowles-noninteger-nan-domain":
        transform_and_check(ctx, rt.KnowlesRTransform(0.0, 1.5, 2.5), og.GaussLegendre(10), what)
    elif what == "handy-node-above-1e16":
        transform_and_check(ctx, rt.HandyRTransform(0.0, 1.0, 5), og.GaussLegendre(60), what)
    else:
        raise ValueError(what)
