"""C15 - ODE solvers return the solution of the stated problem under any transformation."""

from __future__ import annotations

import math
import signal

import numpy as np

from gridrv import core, instrument
from gridrv.oracles import ode_ref

PROP = "C15"
TITLE = "ODE solvers return the solution of the stated problem under any transformation"
REQUIRED_HOOKS = ["ode.solve_ode_ivp", "ode.solve_ode_bvp", "returned-callable:transform", "returned-callable:direct"]
REQUIRED_FAMILIES = ["ivp-o1", "ivp-o2", "ivp-o3", "bvp-o1", "bvp-o2", "bvp-o3", "ivp-pyfloat-span"]
BUDGET = {"quick": 900, "thorough": 9000}
MAX_DISCARD_FRACTION = 0.05
RULE = (
    "One case = one manufactured linear ODE (order 1-3; y = sin + exp + cubic with analytic derivatives validated against SymPy, "
    "coefficient functions alpha+beta*s(x) (s = sin, Lorentzian, tanh) or constants passed as callables / numbers / ndarray / list, "
    "leading coefficient >= 0.5, non-zero lower-order coefficients, f := sum a_k y^(k); all numbers drawn from the case rng) posed as "
    "IVP (exact derivatives at x0; forward, 25 % backward; NumPy- or Python-float interval ends) or as a well-posed BVP (order 1: one "
    "end; order 2: a0<0<a2 with Dirichlet or mixed Dirichlet/Neumann ends; order 3: y,y' at one end and y at the other on an interval "
    "<= 1 with small lower-order coefficients; derivative values converted to the transformed variable as documented), solved by the "
    "real solve_ode_ivp / solve_ode_bvp once directly and once through ONE coordinate transform. Deterministic cross product "
    "kind x order x IVP method (RK45, DOP853, Radau, BDF, LSODA) x tol (1e-4, 1e-6, 1e-8) x 29 transform configurations (Becke, Knowles k, "
    "Handy m, HandyMod m, LinearFinite, MultiExp on sub-intervals of [-0.9,0.9]; Identity, InverseRTransform of 9 maps, LinearInfinite, "
    "Exp, Power, Hyperbolic on sub-intervals of [0.1,6]; k,m in 1,2,3,2.5; decreasing maps IVP only), plus a Python-float-interval family "
    "over all 29 transforms; quick = 3, thorough = 40 independent random problems per cell. Decided per case: error of y, y', y'' (w.r.t. "
    "the original variable) against the exact solution at 24 points (both ends + 22 random) for both solves, prescribed conditions, "
    "transformed == direct, output shape incl. no_derivatives, no exception. A case is non-trivial when a solve converged and was "
    "compared; 'did not converge' is a discard."
)
ASSUMPTIONS = [
    "admissible = order <= 3, leading coefficient >= 0.5, interval strictly inside the transform's domain, increasing map for BVP (solve_bvp needs an increasing mesh), HyperbolicRTransform with b*(number of points-1) < 1 for every array it sees, slope of the map varying by at most a factor 50 over the interval (beyond that SciPy's adaptive error estimates are unreliable next to the branch point of the transformed equation: DOP853 error 0.04 at tol 1e-6 was measured at slope ratio 1700 - a property of the integrator, not of grid)",
    "solver tolerance: rtol = atol = tol for IVP, tol for BVP. accuracy clause: |error of y^(k)| <= F * tol * scale_k, scale_k = max_{s,t} sum_j |Phi(t,s)|_kj v_j(s): v(s) = local tolerance unit tol*(1+|Y^(j)|) of the variables the solver integrates, mapped to the original variable with the Faa di Bruno matrix of the map (g', g'' obtained numerically from the forward map only), Phi = propagator of the homogeneous equation (own tight SciPy integration in the original variable). F = 200 for BVP, 25000 for IVP (calibrated as 100 x the largest ratio seen on the unchanged tree, 1.2 / 248; an IVP solver controls the local error only, the global error grows with the number of steps); equivalence 2F; conditions 10",
    "problems are non-stiff and well conditioned by construction (|a_k/a_K| <~ 2.6, interval length <= 2.5; BVP recipes of DESIGN C15)",
]
LEVEL_TEXT = "Exploration: seeded manufactured problems with exact solutions over the full cross product of kinds, orders, methods, tolerances and transform configurations; held on the executions produced."
TECHNIQUE = "runtime monitoring: reference-model monitor (method of manufactured solutions) on solve_ode_ivp / solve_ode_bvp and on the returned callable, plus differential monitor transformed-vs-direct"

TOLS = [1e-4, 1e-6, 1e-8]
METHODS = ["RK45", "DOP853", "Radau", "BDF", "LSODA"]
KM = [1, 2, 3, 2.5]
# |error| <= factor * tol * scale.  DESIGN starts from 100; calibrated per BUILDING.md (>= 100 x the largest ratio seen on the
# unchanged tree over quick seeds 0-3 and thorough seeds 0-1): BVP (collocation, global residual control) largest ratio 1.2 -> 200;
# IVP largest ratio 55 in the quick tier, 248 in the thorough tier (heavy tail: an adaptive IVP solver bounds the LOCAL error by
# tol, the global error grows with the number of steps; BDF / LSODA / RK45 at tol 1e-8 are the extremes) -> 25000.
# Every seeded break gives ratios 1e5..1e9 in hundreds of checks at tol <= 1e-6 (selfcheck/c15/RESULTS.md).
ACC_FACTOR = {"ivp": 25000.0, "bvp": 200.0}
EQ_FACTOR = {"ivp": 50000.0, "bvp": 400.0}
NPTS = 24
RHO_MAX = 50.0  # admissible variation max|g'|/min|g'| of the map over the interval

# (label, class) - class "A": domain [-1,1], interval inside [-0.9,0.9]; class "B": interval inside [0.1,6]
TRANSFORMS = (
    [("Becke", "A")]
    + [(f"Knowles(k={k})", "A") for k in KM]
    + [(f"Handy(m={m})", "A") for m in KM]
    + [(f"HandyMod(m={m})", "A") for m in KM]
    + [("LinearFinite", "A"), ("MultiExp", "A")]
    + [("Identity", "B"), ("Inverse(Becke)", "B"), ("Inverse(Knowles(k=2))", "B"), ("Inverse(Knowles(k=2.5))", "B"), ("Inverse(Handy(m=2))", "B"), ("Inverse(Handy(m=3))", "B")]
    + [("Inverse(HandyMod(m=3))", "B"), ("Inverse(HandyMod(m=2.5))", "B"), ("Inverse(LinearFinite)", "B"), ("Inverse(MultiExp)", "B")]
    + [("LinearInfinite", "B"), ("Exp", "B"), ("Power", "B"), ("Hyperbolic", "B")]
)
DECREASING = {"MultiExp", "Inverse(MultiExp)"}  # decreasing maps: decreasing mesh, rejected by scipy's solve_bvp (documented exclusion)


PYFLOAT_NEEDS_SIZE = ("LinearInfinite", "Hyperbolic")  # their deriv() uses x.size (witnesses of the defect fixed in 1e13ca4)


def cases(tier, seed):
    reps = 2 if tier == "quick" else 40
    out = []
    for rep in range(reps):
        for order in (1, 2, 3):
            for ti, tol in enumerate(TOLS):
                if tier == "quick" and rep == 1 and ti != (seed + order) % len(TOLS):
                    continue  # quick: one complete cross product plus a seed-rotated third of a second one
                for label, cls in TRANSFORMS:
                    for method in METHODS:
                        cost = (1.0 + ti) * order * (2.0 if method in ("Radau", "BDF") else 1.0)
                        if rep == 0 and method in ("Radau", "BDF") and order == 2 and label == "Identity" and ti == 1:
                            cost = 1e9  # witness of the defect fixed in 0b50a94 (implicit methods, order >= 2): run first
                        out.append((f"ivp-o{order}", {"method": method, "tol": tol, "tf": label, "rep": rep}, cost))
                    if label not in DECREASING:
                        out.append((f"bvp-o{order}", {"tol": tol, "tf": label, "rep": rep}, (1.0 + 2 * ti) * order * 2.0))
        # x_span given as plain Python floats (the documented "tuple") through every transform
        for label, cls in TRANSFORMS:
            for order in (1, 2):
                out.append(("ivp-pyfloat-span", {"method": "RK45", "tol": 1e-6, "tf": label, "order": order, "rep": rep}, 1e9 if (rep == 0 and label in PYFLOAT_NEEDS_SIZE) else 1.0))
    return out


# ------------------------------------------------------------------------------------------------ transforms
def _param(label):
    if "=" not in label:
        return None
    v = label.split("=")[1].rstrip(")")
    return float(v) if "." in v else int(v)


def build_transform(label, rng, kind, a, b):
    """Real transform object with seeded admissible parameters for the x-interval [a, b]; returns (tf, description).

    In 70 % of the cases the scale parameter is chosen so that the mean slope |r(b)-r(a)|/(b-a) of the map lies in
    [0.5, 2] (the solver then integrates over an interval of comparable length: sharp tolerances); otherwise it is drawn freely
    (R in [0.3, 3] etc.) and the tolerance scale accounts for the length of the transformed interval."""
    import grid.rtransform as rt

    p = _param(label)
    inv = label.startswith("Inverse(")
    base = label[8:-1] if inv else label
    name = base.split("(")[0]
    L = b - a
    slope = float(rng.uniform(0.5, 2.0))
    normalised = bool(rng.random() < 0.7)
    if inv:
        rmin = float(rng.uniform(-0.3, 0.0))
        R = float(rng.uniform(1.0, 4.0))
    else:
        rmin = float(rng.uniform(0.0, 0.5))
        R = float(rng.uniform(0.3, 3.0))

    def unit_span(make):  # |phi(b) - phi(a)| of the map with unit scale parameter
        t = make(1.0)
        v = t.transform(np.array([a, b]))
        return abs(float(v[1] - v[0]))

    if name in ("Becke", "Knowles", "Handy", "MultiExp"):
        make = {
            "Becke": lambda RR: rt.BeckeRTransform(rmin, RR),
            "Knowles": lambda RR: rt.KnowlesRTransform(rmin, RR, p),
            "Handy": lambda RR: rt.HandyRTransform(rmin, RR, p),
            "MultiExp": lambda RR: rt.MultiExpRTransform(rmin, RR),
        }[name]
        if normalised and not inv:
            R = L * slope / unit_span(make)
        tf, d = make(R), {"rmin": rmin, "R": R}
    elif name == "HandyMod":
        # admissible (increasing, pole-free) iff rmax - rmin > 2^m - 1
        rmax = rmin + 2.0**p - 1.0 + float(rng.uniform(1.0, 20.0))
        if inv:
            rmax = max(rmax, 6.5 + float(rng.uniform(0.0, 10.0)))
        tf, d = rt.HandyModRTransform(rmin, rmax, p), {"rmin": rmin, "rmax": rmax}
    elif name == "LinearFinite":
        if inv:
            rmin, rmax = float(rng.uniform(-0.3, 0.05)), float(rng.uniform(6.2, 12.0))
        else:
            rmin = float(rng.uniform(-1.0, 1.0))
            rmax = rmin + (2.0 * slope if normalised else float(rng.uniform(0.5, 10.0)))
        tf, d = rt.LinearFiniteRTransform(rmin, rmax), {"rmin": rmin, "rmax": rmax}
    elif name == "Identity":
        tf, d = rt.IdentityRTransform(), {}
    elif name == "LinearInfinite":
        rmin, bb = float(rng.uniform(0.0, 1.0)), float(rng.uniform(3.0, 10.0))
        rmax = rmin + (bb * slope if normalised else float(rng.uniform(1.0, 10.0)))
        tf, d = rt.LinearInfiniteRTransform(rmin, rmax, bb), {"rmin": rmin, "rmax": rmax, "b": bb}
    elif name == "Exp":
        bb, ratio = float(rng.uniform(3.0, 10.0)), float(rng.uniform(5.0, 100.0))
        rmin = float(rng.uniform(0.05, 0.5))
        if normalised:
            rmin = L * slope / unit_span(lambda q: rt.ExpRTransform(1.0, ratio, bb))
        tf, d = rt.ExpRTransform(rmin, rmin * ratio, bb), {"rmin": rmin, "rmax": rmin * ratio, "b": bb}
    elif name == "Power":
        bb, power = float(rng.uniform(3.0, 10.0)), float(rng.uniform(2.0, 3.5))
        rmin = float(rng.uniform(0.05, 0.5))
        if normalised:
            rmin = L * slope / unit_span(lambda q: rt.PowerRTransform(1.0, (bb + 1.0) ** power, bb))
        tf, d = rt.PowerRTransform(rmin, rmin * (bb + 1.0) ** power, bb), {"rmin": rmin, "rmax": rmin * (bb + 1.0) ** power, "b": bb}
    elif name == "Hyperbolic":
        aa = slope if normalised else float(rng.uniform(0.3, 3.0))
        # the class requires b*(number of points - 1) < 1 for every array it sees: IVP sees <= NPTS points,
        # BVP sees the whole adaptive mesh (bounded by max_nodes = BVP_NODES_HYPERBOLIC)
        bb = float(rng.uniform(0.005, 0.02)) if kind == "ivp" else float(rng.uniform(0.5, 0.9)) / BVP_NODES_HYPERBOLIC
        tf, d = rt.HyperbolicRTransform(aa, bb), {"a": aa, "b": bb}
    else:
        raise ValueError(label)
    if p is not None:
        d["k" if name == "Knowles" else "m"] = p
    d["normalised_slope"] = normalised
    if inv:
        tf = rt.InverseRTransform(tf)
    return tf, d


BVP_NODES_HYPERBOLIC = 1000


# ------------------------------------------------------------------------------------------------ monitors on the API
def setup(ctx):
    worst = ode_ref.self_test()
    ctx.count("oracle_selftest_ok")
    ctx.notes["oracle_selftest_worst_x1e18"] = int(worst * 1e18)
    import grid.ode as gode

    def post(res, exc, args, kwargs):
        if exc is None:
            ctx.check("returns-callable", "solve_ode", callable(res))

    instrument.wrap_function(ctx, gode, "solve_ode_ivp", post, hook="ode.solve_ode_ivp")
    instrument.wrap_function(ctx, gode, "solve_ode_bvp", post, hook="ode.solve_ode_bvp")


class _NoConvergence(Exception):
    pass


class _CpuLimit(BaseException):  # BaseException: must not be swallowed by an `except Exception` on the way up
    pass


CPU_LIMIT_S = 30.0  # CPU seconds (not wall clock) for ONE library call; normal cost 0.01-1 s


def _on_vtalrm(signum, frame):
    raise _CpuLimit()


class _cpu_limit:
    """A library call that burns more than CPU_LIMIT_S of process CPU time (seen with seeded breaks: an integrator that
    never gets anywhere on a corrupted equation) is abandoned and the case DISCARDED - a hang is never a violation, and
    it must not take the worker's other results down with it."""

    def __enter__(self):
        self.old = signal.signal(signal.SIGVTALRM, _on_vtalrm)
        signal.setitimer(signal.ITIMER_VIRTUAL, CPU_LIMIT_S)

    def __exit__(self, *exc):
        signal.setitimer(signal.ITIMER_VIRTUAL, 0.0)
        signal.signal(signal.SIGVTALRM, self.old)
        return False


_MISSING = object()


def _quantise(exc):
    msg = str(exc)
    if "non-broadcastable output operand" in msg:
        return "non-broadcastable-rhs"
    if "'float' object has no attribute 'size'" in msg:
        return "float.size"
    return "".join(ch for ch in msg[:48] if not ch.isdigit())


def _call(ctx, subject, fn, *args, **kwargs):
    """Call real library code.  'did not converge' -> _NoConvergence (case discarded); any other exception raised
    through library frames is a violation of 'solves-admissible-problem' (all inputs here are admissible)."""
    try:
        with _cpu_limit():
            return fn(*args, **kwargs)
    except _CpuLimit:
        raise _NoConvergence(f"abandoned after {CPU_LIMIT_S:.0f} CPU-s") from None
    except Exception as exc:
        if not core.is_library_exception(exc):
            raise
        if isinstance(exc, ValueError) and "didn't converge" in str(exc):
            raise _NoConvergence(str(exc)) from None
        ctx.fail("solves-admissible-problem", subject, f"raised:{type(exc).__name__}:{_quantise(exc)}", detail={"error": str(exc)[:300], "tb": core.short_tb(exc)})
        return _MISSING


# ------------------------------------------------------------------------------------------------ one case
def run_case(ctx, family, params):
    import grid.ode as gode

    rng = ctx.rng
    np.random.seed(int(rng.integers(0, 2**32 - 1)))  # solve_ode_bvp draws its default initial guess from the global RNG
    pyfloat = family == "ivp-pyfloat-span"
    kind = family[:3]
    order = int(params["order"]) if pyfloat else int(family[-1])
    tol, label, method = float(params["tol"]), params["tf"], params.get("method")
    cls = dict(TRANSFORMS)[label]
    lo, hi = (-0.9, 0.9) if cls == "A" else (0.1, 6.0)
    short = kind == "bvp" and order == 3
    # interval + transform parameters: redrawn (shorter each time) until the slope of the map varies by at most RHO_MAX over
    # the interval - beyond that the transformed ODE has a nearby branch point / huge stiffness ratio and the adaptive
    # solvers' own error estimates (not the library) become unreliable (measured: DOP853 error 0.04 at tol 1e-6, rho 1700)
    L0 = float(rng.uniform(0.5, 1.0)) if short else float(rng.uniform(0.6, 1.8 if cls == "A" else 2.5))
    for attempt in range(40):
        L = max(0.25, L0 * 0.9**attempt)
        a = float(rng.uniform(lo, hi - L))
        b = a + L
        tf, tfdesc = build_transform(label, rng, kind, a, b)
        g1 = np.array([ode_ref.map_derivs(tf, x, nmax=1)[0] for x in np.linspace(a, b, 9)])
        rho = float(np.max(np.abs(g1)) / np.min(np.abs(g1)))
        if rho <= RHO_MAX and np.all(g1 * g1[0] > 0):
            break
    else:
        ctx.discard("generator: no interval with slope ratio <= RHO_MAX")
        return
    ctx.count("interval_redraws", attempt)
    mode = str(rng.choice(["callable", "callable", "mixed", "const"]))
    pr = ode_ref.random_problem(rng, order, xc=0.5 * (a + b), kind=kind, constant=(mode == "const"))
    if mode == "const":
        mode = str(rng.choice(["array", "list", "mixed", "callable"]))
    subject = f"{kind}:{label}"
    esubj = f"{kind}-{method}:order{order}:{label}" if kind == "ivp" else f"bvp:order{order}:{label}"  # subject of exceptions
    if pyfloat:
        esubj += ":python-float-span"
    ctx.case_note("interval", [round(a, 4), round(b, 4)])
    ctx.case_note("coeff_mode", mode)
    ctx.case_note("transform", tfdesc)
    ctx.count(f"coeff_mode:{mode}")

    backward = bool(kind == "ivp" and rng.random() < 0.25)
    xs = np.concatenate(([a, b], np.sort(rng.uniform(a, b, NPTS - 2))))
    exact = pr.exact(xs)  # (K, N)

    # derivatives of the implemented map from its forward map only (never tf.deriv*)
    g = np.array([ode_ref.map_derivs(tf, x) for x in xs])  # (N, 2)
    g_end = {0: g[0, 0], 1: g[1, 0]}
    direction = 0 if kind == "bvp" else (-1 if backward else 1)
    scale_d = _scales(pr, xs, exact, None, order, direction)
    scale_t = np.maximum(_scales(pr, xs, exact, g, order, direction), scale_d)
    ctx.case_note("scale_direct", [float(s) for s in scale_d])
    ctx.case_note("scale_transformed", [float(s) for s in scale_t])
    info = {"tol": tol, "method": method, "tf": tfdesc, "interval": [a, b], "coeff_mode": mode, "slope_ratio": rho}

    try:
        if kind == "ivp":
            x0, x1 = (b, a) if backward else (a, b)
            i0 = 1 if backward else 0
            y0 = [float(v) for v in exact[:, i0]]
            y0_arg = y0 if rng.random() < 0.5 else np.array(y0)
            # interval ends as NumPy floats or plain Python floats (family ivp-pyfloat-span: always Python floats; the
            # derivative methods of LinearInfinite / Hyperbolic use x.size, fixed in 1e13ca4)
            np_span = (not pyfloat) and rng.random() < 0.5
            span = (np.float64(x0), np.float64(x1)) if np_span else (float(x0), float(x1))
            nod = bool(order >= 2 and rng.random() < 0.15)
            kw = {"method": method, "rtol": tol, "atol": tol}
            sol_d = _call(ctx, esubj + ":direct", gode.solve_ode_ivp, span, pr.fx_callback(), pr.coeff_arg(mode), y0_arg, **kw)
            sol_t = _call(ctx, esubj, gode.solve_ode_ivp, span, pr.fx_callback(), pr.coeff_arg(mode), y0_arg, tf, no_derivatives=nod, **kw)
            cond = [(i0, k, y0[k]) for k in range(order)]
            ctx.count("ivp-backward" if backward else "ivp-forward")
        else:
            cond, bd_direct, bd_tf = _bvp_conditions(rng, order, exact, g_end)
            n0 = int(rng.integers(8, 30))
            mesh = np.linspace(a, b, n0)
            if rng.random() < 0.5:
                mesh[1:-1] += rng.uniform(-0.3, 0.3, n0 - 2) * (b - a) / (n0 - 1)
            guess = None if rng.random() < 0.6 else np.zeros((order, n0))
            nod = bool(order >= 2 and rng.random() < 0.15)
            kw = {"tol": tol, "max_nodes": BVP_NODES_HYPERBOLIC if label == "Hyperbolic" else 5000, "initial_guess_y": guess}
            sol_d = _call(ctx, esubj + ":direct", gode.solve_ode_bvp, mesh.copy(), pr.fx_callback(), pr.coeff_arg(mode), bd_direct, **kw)
            if nod:  # the default of solve_ode_bvp
                sol_t = _call(ctx, esubj, gode.solve_ode_bvp, mesh.copy(), pr.fx_callback(), pr.coeff_arg(mode), bd_tf, tf, **kw)
            else:
                sol_t = _call(ctx, esubj, gode.solve_ode_bvp, mesh.copy(), pr.fx_callback(), pr.coeff_arg(mode), bd_tf, tf, no_derivatives=False, **kw)
    except _NoConvergence as exc:
        ctx.discard("solver did not converge: " + str(exc)[-24:])
        return

    # ---------------------------------------------------------------- the returned callables
    yd = yt = _MISSING
    try:
        if sol_d is not _MISSING:
            yd = _call(ctx, esubj + ":direct:returned-callable", lambda: np.asarray(sol_d(xs.copy())))
            ctx.hit("returned-callable:direct")
        if sol_t is not _MISSING:
            yt = _call(ctx, esubj + ":returned-callable", lambda: np.asarray(sol_t(xs.copy())))
            ctx.hit("returned-callable:transform")
    except _NoConvergence as exc:
        ctx.discard("returned callable: " + str(exc)[-24:])
        return
    if yd is not _MISSING and not ctx.check("output-shape", f"{kind}:direct", yd.shape == (order, NPTS), detail={"shape": list(yd.shape)}):
        yd = _MISSING
    if yt is not _MISSING:
        want_t = (NPTS,) if nod else (order, NPTS)
        if not ctx.check("output-shape", subject + (":no_derivatives" if nod else ""), yt.shape == want_t, detail={"shape": list(yt.shape), "want": list(want_t)}):
            yt = _MISSING
        elif nod:
            ctx.count("no_derivatives=True")
            yt = yt[None, :]

    # accuracy against the exact solution, per derivative order; prescribed conditions (values w.r.t. the ORIGINAL
    # variable: the exact derivatives at the end points)
    if yd is not _MISSING:
        for k in range(order):
            err = float(np.max(np.abs(yd[k] - exact[k])))
            ctx.check(f"{kind}-direct-solution-accuracy", f"{kind}:direct", err / (tol * scale_d[k]), ACC_FACTOR[kind], sig=f"order{order}:d{k}", detail={"err": err, "scale": scale_d[k], **info, "problem": pr.describe()})
        for end, k, val in cond:
            ctx.check(f"{kind}-conditions-met", f"{kind}:direct", abs(yd[k, end] - val) / (tol * scale_d[k]), COND_FACTOR, sig=f"order{order}:d{k}", detail={"got": float(yd[k, end]), "want": val, "end": end, **info})
    if yt is not _MISSING:
        for k in range(yt.shape[0]):
            err = float(np.max(np.abs(yt[k] - exact[k])))
            ctx.check(f"{kind}-transformed-solution-accuracy", subject, err / (tol * scale_t[k]), ACC_FACTOR[kind], sig=f"order{order}:d{k}", detail={"err": err, "scale": scale_t[k], **info, "problem": pr.describe()})
            if yd is not _MISSING:
                dif = float(np.max(np.abs(yt[k] - yd[k])))
                ctx.check(f"{kind}-transform-equivalence", subject, dif / (tol * scale_t[k]), EQ_FACTOR[kind], sig=f"order{order}:d{k}", detail={"diff": dif, "scale": scale_t[k], **info})
        for end, k, val in cond:
            if k < yt.shape[0]:
                ctx.check(f"{kind}-conditions-met", subject, abs(yt[k, end] - val) / (tol * scale_t[k]), COND_FACTOR, sig=f"order{order}:d{k}", detail={"got": float(yt[k, end]), "want": val, "end": end, **info})
        ctx.check("callbacks-used", subject, pr.calls["fx"] > 0 and (pr.calls["coef"] > 0 or mode in ("array", "list") or pr.is_constant()))
        # the returned callable is a function of the points it is given, on EVERY call: evaluate it again on a second
        # point set with the same length and the same first/last elements but different interior points
        xs2 = xs.copy()
        xs2[2:-1] = np.sort(rng.uniform(a, b, NPTS - 3))
        exact2 = pr.exact(xs2)
        g2 = np.array([ode_ref.map_derivs(tf, x) for x in xs2])
        scale2 = np.maximum(_scales(pr, xs2, exact2, g2, order, direction), _scales(pr, xs2, exact2, None, order, direction))
        try:
            y2 = _call(ctx, esubj + ":returned-callable:second-point-set", lambda: np.asarray(sol_t(xs2.copy())))
        except _NoConvergence:
            y2 = _MISSING
        if y2 is not _MISSING and y2.shape == ((NPTS,) if nod else (order, NPTS)):
            y2 = y2[None, :] if nod else y2
            for k in range(y2.shape[0]):
                err = float(np.max(np.abs(y2[k] - exact2[k])))
                ctx.check(f"{kind}-returned-callable-second-point-set", subject, err / (tol * scale2[k]), ACC_FACTOR[kind], sig=f"order{order}:d{k}", detail={"err": err, "scale": scale2[k], **info})
            ctx.hit("returned-callable:second-point-set")


COND_FACTOR = 10.0


def _bvp_conditions(rng, order, exact, g_end):
    """Well-posed boundary conditions (DESIGN C15).  Returns (cond, bd_direct, bd_transformed):
    cond = [(end, k, exact y^(k)(x_end))]; derivative VALUES for the transformed call are converted to the new
    variable as the API documents (dY/dr = y'(x)/g'(x))."""
    ya = {k: float(exact[k, 0]) for k in range(order)}
    yb = {k: float(exact[k, 1]) for k in range(order)}
    val = {0: ya, 1: yb}
    if order == 1:
        spec = [(int(rng.integers(0, 2)), 0)]
    elif order == 2:
        spec = [[(0, 0), (1, 0)], [(0, 0), (1, 0)], [(0, 0), (1, 1)], [(0, 1), (1, 0)]][int(rng.integers(0, 4))]
    else:
        spec = [[(0, 0), (0, 1), (1, 0)], [(1, 0), (1, 1), (0, 0)]][int(rng.integers(0, 2))]
    if rng.random() < 0.5:
        spec = spec[::-1]
    cond = [(e, k, val[e][k]) for e, k in spec]
    as_tuple = rng.random() < 0.5
    mk = (lambda e, k, v: (e, k, v)) if as_tuple else (lambda e, k, v: [e, k, v])
    bd_direct = [mk(e, k, v) for e, k, v in cond]
    bd_tf = [mk(e, k, v if k == 0 else v / g_end[e]) for e, k, v in cond]
    return cond, bd_direct, bd_tf


def _scales(pr, xs, exact, g, order, direction):
    """Per derivative order: magnitude, in the ORIGINAL variable, of the error a solver working to within tol may leave.

    Model (standard global-error representation): the solver commits, at every position s, a local error of at most
    tol*(1+|Y^(j)(s)|) in each component of the vector it integrates - (y, y', y'') for the direct solve,
    (Y, Y_r, Y_rr)(r) for the transformed one; expressed in the original variable this local error is
    v(s) = |blockdiag(1, M(s))| (1 + |Y(s)|) with the Faa di Bruno matrix M of the map (g', g'' from the forward map), and
    it is carried to position t by the propagator Phi(t, s) of the homogeneous ODE (computed here by an independent tight
    integration of the companion system in the original variable).  scale_k = max_{s,t} sum_j |Phi(t,s)|_kj v_j(s), s ranging
    over the positions passed before t (IVP, direction +1/-1) or over the whole interval (BVP, direction 0).
    `g` None = direct solve (M = identity)."""
    n = xs.size
    v = 1.0 + np.abs(exact)  # (K, n)
    if g is not None and order > 1:
        for i in range(n):
            m = ode_ref.bell_matrix(g[i, 0], g[i, 1], order - 1)
            yr = np.linalg.solve(m, exact[1:, i])
            v[1:, i] = np.abs(m) @ (1.0 + np.abs(yr))
    phi = ode_ref.propagators(pr, xs)  # (n, K, K): Phi(xs[i], xs[0])
    inv = np.linalg.inv(phi)
    P = np.abs(np.einsum("tkl,slj->tskj", phi, inv))  # |Phi(t, s)|
    contrib = np.einsum("tskj,js->tsk", P, v)  # (t, s, K)
    if direction != 0:
        later = (xs[:, None] - xs[None, :]) * direction >= 0  # s passed before (or at) t
        contrib = np.where(later[:, :, None], contrib, 0.0)
    return contrib.max(axis=(0, 1))
