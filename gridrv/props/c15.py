"""C15 - ODE solvers return the solution of the stated problem under any transformation."""

from __future__ import annotations

import numpy as np

from gridrv import instrument
from gridrv.oracles import ode_ref

PROP = "C15"
TITLE = "ODE solvers return the solution of the stated problem under any transformation"
REQUIRED_HOOKS = ["ode.solve_ode_ivp", "ode.solve_ode_bvp", "returned-callable:transform", "returned-callable:direct"]
REQUIRED_FAMILIES = ["ivp-o1", "ivp-o2", "ivp-o3", "bvp-o1", "bvp-o2", "bvp-o3"]
BUDGET = {"quick": 400, "thorough": 3000}
MAX_DISCARD_FRACTION = 0.05
RULE = (
    "One case = one manufactured linear ODE (order 1-3; y = sin + exp + cubic with analytic derivatives, coefficient functions "
    "alpha+beta*s(x) or constants, leading coefficient >= 0.5, f := sum a_k y^(k); drawn from the case rng) posed as IVP (exact "
    "derivatives at x0, forward or backward) or as a well-posed BVP, solved by the real solve_ode_ivp / solve_ode_bvp once directly "
    "and once through ONE coordinate transform; deterministic cross product kind x order x IVP method (RK45, DOP853, Radau, LSODA) x "
    "tol (1e-4, 1e-6, 1e-8) x 29 transform configurations (Becke, Knowles k, Handy m, HandyMod m, LinearFinite, MultiExp on "
    "[-0.9,0.9]; Identity, InverseRTransform of 9 maps, LinearInfinite, Exp, Power, Hyperbolic on [0.1,6]; k,m in 1,2,3,2.5), "
    "thorough repeats it with 12 independent random problems each. Decided per case: error of y, y', y'' (w.r.t. the original "
    "variable) against the exact solution at 24 points for both solves, prescribed conditions, transformed == direct, shape and "
    "no_derivatives. A case is non-trivial when both solves converged and were compared; non-convergence is a discard."
)
ASSUMPTIONS = [
    "admissible = order <= 3, leading coefficient bounded away from 0, interval strictly inside the transform's domain, increasing map for BVP (solve_bvp needs an increasing mesh), HyperbolicRTransform with b*(number of points-1) < 1",
    "solver tolerance: rtol = atol = tol for IVP, tol for BVP; accuracy is judged at 100 x tol x scale where scale is the magnitude of the controlled quantities (solution and derivatives in the variable the solver integrates, mapped to the original variable with derivatives of the map obtained numerically from its forward map only)",
    "problems are non-stiff and well conditioned by construction (|a_k/a_K| <~ 3, interval length <= 2.5; BVP recipes of DESIGN C15)",
]
LEVEL_TEXT = "Exploration: seeded manufactured problems with exact solutions over the full cross product of kinds, orders, methods, tolerances and transform configurations; held on the executions produced."
TECHNIQUE = "runtime monitoring: reference-model monitor (method of manufactured solutions) on solve_ode_ivp / solve_ode_bvp and on the returned callable, plus differential monitor transformed-vs-direct"

TOLS = [1e-4, 1e-6, 1e-8]
METHODS = ["RK45", "DOP853", "Radau", "LSODA"]
KM = [1, 2, 3, 2.5]
ACC_FACTOR = 100.0  # |error| <= ACC_FACTOR * tol * scale
EQ_FACTOR = 200.0
NPTS = 24

# (label, class) - class "A": domain [-1,1], interval inside [-0.9,0.9]; class "B": interval inside [0.1,6]
TRANSFORMS = (
    [("Becke", "A")]
    + [(f"Knowles(k={k})", "A") for k in KM]
    + [(f"Handy(m={m})", "A") for m in KM]
    + [(f"HandyMod(m={m})", "A") for m in KM]
    + [("LinearFinite", "A"), ("MultiExp", "A")]
    + [("Identity", "B"), ("Inverse(Becke)", "B"), ("Inverse(Knowles(k=2))", "B"), ("Inverse(Knowles(k=2.5))", "B"), ("Inverse(Handy(m=2))", "B"), ("Inverse(Handy(m=3))", "B")]
    + [("Inverse(HandyMod(m=3))", "B"), ("Inverse(HandyMod(m=2.5))", "B"), ("Inverse(LinearFinite)", "B"), ("Inverse(MultiExp)", "B")]
    + [("LinearInfinite", "B"), ("Exp", "B"), ("Power", "B"), ("Hyperbolic", "B")]
)
DECREASING = {"MultiExp", "Inverse(MultiExp)"}  # decreasing maps: decreasing mesh, rejected by scipy's solve_bvp (documented exclusion)


def cases(tier, seed):
    reps = 1 if tier == "quick" else 12
    out = []
    for rep in range(reps):
        for order in (1, 2, 3):
            for ti, tol in enumerate(TOLS):
                for label, cls in TRANSFORMS:
                    for method in METHODS:
                        cost = (1.0 + ti) * order * (2.0 if method in ("Radau",) else 1.0)
                        out.append((f"ivp-o{order}", {"method": method, "tol": tol, "tf": label, "rep": rep}, cost))
                    if label not in DECREASING:
                        out.append((f"bvp-o{order}", {"tol": tol, "tf": label, "rep": rep}, (1.0 + 2 * ti) * order * 2.0))
    return out


# ------------------------------------------------------------------------------------------------ transforms
def _param(label):
    if "=" not in label:
        return None
    v = label.split("=")[1].rstrip(")")
    return float(v) if "." in v else int(v)


def build_transform(label, rng, kind):
    """Real transform object with seeded admissible parameters; returns (tf, description)."""
    import grid.rtransform as rt

    p = _param(label)
    inv = label.startswith("Inverse(")
    base = label[8:-1] if inv else label
    name = base.split("(")[0]
    if inv:
        rmin = float(rng.uniform(-0.3, 0.0))
        R = float(rng.uniform(1.0, 4.0))
    else:
        rmin = float(rng.uniform(0.0, 0.5))
        R = float(rng.uniform(0.5, 3.0))
    if name == "Becke":
        tf, d = rt.BeckeRTransform(rmin, R), {"rmin": rmin, "R": R}
    elif name == "Knowles":
        tf, d = rt.KnowlesRTransform(rmin, R, p), {"rmin": rmin, "R": R, "k": p}
    elif name == "Handy":
        tf, d = rt.HandyRTransform(rmin, R, p), {"rmin": rmin, "R": R, "m": p}
    elif name == "HandyMod":
        # admissible (increasing, pole-free) iff rmax - rmin > 2^m - 1
        rmax = rmin + 2.0**p - 1.0 + float(rng.uniform(1.0, 20.0))
        if inv:
            rmax = max(rmax, 6.5 + float(rng.uniform(0.0, 10.0)))
        tf, d = rt.HandyModRTransform(rmin, rmax, p), {"rmin": rmin, "rmax": rmax, "m": p}
    elif name == "LinearFinite":
        if inv:
            rmin, rmax = float(rng.uniform(-0.3, 0.05)), float(rng.uniform(6.2, 12.0))
        else:
            rmin = float(rng.uniform(-1.0, 1.0))
            rmax = rmin + float(rng.uniform(0.5, 10.0))
        tf, d = rt.LinearFiniteRTransform(rmin, rmax), {"rmin": rmin, "rmax": rmax}
    elif name == "MultiExp":
        tf, d = rt.MultiExpRTransform(rmin, R), {"rmin": rmin, "R": R}
    elif name == "Identity":
        tf, d = rt.IdentityRTransform(), {}
    elif name == "LinearInfinite":
        rmin = float(rng.uniform(0.0, 1.0))
        rmax, b = rmin + float(rng.uniform(1.0, 10.0)), float(rng.uniform(3.0, 10.0))
        tf, d = rt.LinearInfiniteRTransform(rmin, rmax, b), {"rmin": rmin, "rmax": rmax, "b": b}
    elif name == "Exp":
        rmin = float(rng.uniform(0.05, 0.5))
        rmax, b = rmin * float(rng.uniform(5.0, 100.0)), float(rng.uniform(3.0, 10.0))
        tf, d = rt.ExpRTransform(rmin, rmax, b), {"rmin": rmin, "rmax": rmax, "b": b}
    elif name == "Power":
        rmin, b = float(rng.uniform(0.05, 0.5)), float(rng.uniform(3.0, 10.0))
        rmax = rmin * (b + 1.0) ** float(rng.uniform(2.0, 3.5))
        tf, d = rt.PowerRTransform(rmin, rmax, b), {"rmin": rmin, "rmax": rmax, "b": b}
    elif name == "Hyperbolic":
        a = float(rng.uniform(0.5, 3.0))
        # the class requires b*(number of points - 1) < 1 for every array it sees: IVP sees <= NPTS points,
        # BVP sees the whole adaptive mesh (kept below 1/b by max_nodes)
        b = float(rng.uniform(0.005, 0.02)) if kind == "ivp" else float(rng.uniform(0.001, 0.002))
        tf, d = rt.HyperbolicRTransform(a, b), {"a": a, "b": b}
    else:
        raise ValueError(label)
    if inv:
        tf = rt.InverseRTransform(tf)
    return tf, d


# ------------------------------------------------------------------------------------------------ monitors on the API
def setup(ctx):
    worst = ode_ref.self_test()
    ctx.count("oracle_selftest_ok")
    ctx.notes["oracle_selftest_worst_x1e18"] = int(worst * 1e18)
    import grid.ode as gode

    def post(res, exc, args, kwargs):
        if exc is None:
            ctx.check("returns-callable", "solve_ode", callable(res))

    instrument.wrap_function(ctx, gode, "solve_ode_ivp", post, hook="ode.solve_ode_ivp")
    instrument.wrap_function(ctx, gode, "solve_ode_bvp", post, hook="ode.solve_ode_bvp")


class _NoConvergence(Exception):
    pass


def _call(ctx, subject, fn, *args, **kwargs):
    """Call the real solver; 'did not converge' -> _NoConvergence (discard); any other library exception is a violation."""
    try:
        return fn(*args, **kwargs)
    except ValueError as exc:
        if "didn't converge" in str(exc):
            raise _NoConvergence(str(exc)) from None
        raise


# ------------------------------------------------------------------------------------------------ one case
def run_case(ctx, family, params):
    import grid.ode as gode

    rng = ctx.rng
    np.random.seed(int(rng.integers(0, 2**32 - 1)))  # solve_ode_bvp draws its default initial guess from the global RNG
    kind, order = family[:3], int(family[-1])
    tol, label = float(params["tol"]), params["tf"]
    cls = dict(TRANSFORMS)[label]
    short = kind == "bvp" and order == 3
    L = float(rng.uniform(0.5, 1.0)) if short else float(rng.uniform(0.6, 1.8 if cls == "A" else 2.5))
    lo, hi = (-0.9, 0.9) if cls == "A" else (0.1, 6.0)
    a = float(rng.uniform(lo, hi - L))
    b = a + L
    mode = str(rng.choice(["callable", "callable", "mixed", "const"]))
    pr = ode_ref.random_problem(rng, order, xc=0.5 * (a + b), kind=kind, constant=(mode == "const"))
    if mode == "const":
        mode = str(rng.choice(["array", "list", "mixed", "callable"]))
    tf, tfdesc = build_transform(label, rng, kind)
    subject = f"{kind}:{label}"
    ctx.case_note("interval", [round(a, 4), round(b, 4)])
    ctx.case_note("coeff_mode", mode)
    ctx.case_note("transform", tfdesc)
    ctx.count(f"coeff_mode:{mode}")

    xs = np.concatenate(([a, b], np.sort(rng.uniform(a, b, NPTS - 2))))
    exact = pr.exact(xs)  # (K, N)
    sy = max(1.0, float(np.max(np.abs(exact))))

    # derivatives of the implemented map from its forward map only (never tf.deriv*)
    g = np.array([ode_ref.map_derivs(tf, x) for x in xs])  # (N, 2)
    g_end = {0: g[0, 0], 1: g[1, 0]}
    scale_t = _transformed_scales(exact, g, order)
    ctx.case_note("scale_direct", sy)
    ctx.case_note("scale_transformed", [float(s) for s in scale_t])

    try:
        if kind == "ivp":
            backward = bool(rng.random() < 0.25)
            x0, x1 = (b, a) if backward else (a, b)
            i0 = 1 if backward else 0
            y0 = [float(v) for v in exact[:, i0]]
            y0_arg = y0 if rng.random() < 0.5 else np.array(y0)
            # HyperbolicRTransform.deriv needs an object with .size: hand NumPy floats to it (Python floats to the others)
            span = (np.float64(x0), np.float64(x1)) if (label == "Hyperbolic" or rng.random() < 0.5) else (x0, x1)
            nod = bool(order >= 2 and rng.random() < 0.15)
            kw = {"method": params["method"], "rtol": tol, "atol": tol}
            with ctx.guard("solves-admissible-problem", subject + ":direct"):
                sol_d = _call(ctx, subject, gode.solve_ode_ivp, span, pr.fx_callback(), pr.coeff_arg(mode), y0_arg, **kw)
            with ctx.guard("solves-admissible-problem", subject):
                sol_t = _call(ctx, subject, gode.solve_ode_ivp, span, pr.fx_callback(), pr.coeff_arg(mode), y0_arg, tf, no_derivatives=nod, **kw)
            cond = [(i0, k, y0[k]) for k in range(order)]
            ctx.count("ivp-backward" if backward else "ivp-forward")
        else:
            cond, bd_direct, bd_tf = _bvp_conditions(rng, order, exact, g_end)
            n0 = int(rng.integers(8, 30))
            mesh = np.linspace(a, b, n0)
            if rng.random() < 0.5:
                mesh[1:-1] += rng.uniform(-0.3, 0.3, n0 - 2) * (b - a) / (n0 - 1)
            guess = None if rng.random() < 0.6 else np.zeros((order, n0))
            nod = bool(order >= 2 and rng.random() < 0.15)
            max_nodes = 400 if label == "Hyperbolic" else 5000
            kw = {"tol": tol, "max_nodes": max_nodes, "initial_guess_y": guess}
            with ctx.guard("solves-admissible-problem", subject + ":direct"):
                sol_d = _call(ctx, subject, gode.solve_ode_bvp, mesh.copy(), pr.fx_callback(), pr.coeff_arg(mode), bd_direct, **kw)
            with ctx.guard("solves-admissible-problem", subject):
                if nod:  # default of solve_ode_bvp
                    sol_t = _call(ctx, subject, gode.solve_ode_bvp, mesh.copy(), pr.fx_callback(), pr.coeff_arg(mode), bd_tf, tf, **kw)
                else:
                    sol_t = _call(ctx, subject, gode.solve_ode_bvp, mesh.copy(), pr.fx_callback(), pr.coeff_arg(mode), bd_tf, tf, no_derivatives=False, **kw)
    except _NoConvergence as exc:
        ctx.discard("solver did not converge: " + str(exc)[-40:])
        return
    if "sol_d" not in locals() or "sol_t" not in locals():
        return  # a guard recorded the exception

    # ---------------------------------------------------------------- the returned callables
    with ctx.guard("solves-admissible-problem", subject + ":direct:evaluate"):
        yd = np.asarray(sol_d(xs.copy()))
        ctx.hit("returned-callable:direct")
    with ctx.guard("solves-admissible-problem", subject + ":evaluate"):
        yt = np.asarray(sol_t(xs.copy()))
        ctx.hit("returned-callable:transform")
    if "yd" not in locals() or "yt" not in locals():
        return
    okd = ctx.check("output-shape", subject + ":direct", yd.shape == (order, NPTS), detail={"shape": list(yd.shape)})
    want_t = (NPTS,) if nod else (order, NPTS)
    okt = ctx.check("output-shape", subject + (":no_derivatives" if nod else ""), yt.shape == want_t, detail={"shape": list(yt.shape), "want": list(want_t)})
    if not (okd and okt):
        return
    if nod:
        ctx.count("no_derivatives=True")
        yt = yt[None, :]
    nk = yt.shape[0]

    # accuracy against the exact solution, per derivative order
    for k in range(order):
        err = float(np.max(np.abs(yd[k] - exact[k])))
        ctx.check("direct-solution-accuracy", f"{kind}:direct", err / (tol * sy), ACC_FACTOR, sig=f"order{order}:d{k}", detail={"err": err, "tol": tol, "scale": sy, "method": params.get("method")})
    for k in range(nk):
        err = float(np.max(np.abs(yt[k] - exact[k])))
        ctx.check("transformed-solution-accuracy", subject, err / (tol * scale_t[k]), ACC_FACTOR, sig=f"order{order}:d{k}", detail={"err": err, "tol": tol, "scale": scale_t[k], "method": params.get("method"), "tf": tfdesc, "problem": pr.describe(), "interval": [a, b]})
        dif = float(np.max(np.abs(yt[k] - yd[k])))
        ctx.check("transform-equivalence", subject, dif / (tol * scale_t[k]), EQ_FACTOR, sig=f"order{order}:d{k}", detail={"diff": dif, "tol": tol, "scale": scale_t[k], "method": params.get("method"), "tf": tfdesc})
    # prescribed conditions (values w.r.t. the ORIGINAL variable: exact derivatives at the end points)
    for end, k, val in cond:
        ctx.check("conditions-met", f"{kind}:direct", abs(yd[k, end] - val) / (tol * sy), 10.0, sig=f"order{order}:d{k}")
        if k < nk:
            ctx.check("conditions-met", subject, abs(yt[k, end] - val) / (tol * scale_t[k]), 10.0, sig=f"order{order}:d{k}", detail={"got": float(yt[k, end]), "want": val, "end": end})
    ctx.check("callbacks-used", subject, pr.calls["fx"] > 0 and (pr.calls["coef"] > 0 or mode in ("array", "list") or pr.is_constant() and mode == "mixed"))


def _bvp_conditions(rng, order, exact, g_end):
    """Well-posed boundary conditions (DESIGN C15).  Returns (cond, bd_direct, bd_transformed):
    cond = [(end, k, exact y^(k)(x_end))]; derivative VALUES for the transformed call are converted to the new
    variable as the API documents (dY/dr = y'(x)/g'(x))."""
    ya = {k: float(exact[k, 0]) for k in range(order)}
    yb = {k: float(exact[k, 1]) for k in range(order)}
    val = {0: ya, 1: yb}
    if order == 1:
        spec = [(int(rng.integers(0, 2)), 0)]
    elif order == 2:
        spec = [[(0, 0), (1, 0)], [(0, 0), (1, 0)], [(0, 0), (1, 1)], [(0, 1), (1, 0)]][int(rng.integers(0, 4))]
    else:
        spec = [[(0, 0), (0, 1), (1, 0)], [(1, 0), (1, 1), (0, 0)]][int(rng.integers(0, 2))]
    if rng.random() < 0.5:
        spec = spec[::-1]
    cond = [(e, k, val[e][k]) for e, k in spec]
    as_tuple = rng.random() < 0.5
    mk = (lambda e, k, v: (e, k, v)) if as_tuple else (lambda e, k, v: [e, k, v])
    bd_direct = [mk(e, k, v) for e, k, v in cond]
    bd_tf = [mk(e, k, v if k == 0 else v / g_end[e]) for e, k, v in cond]
    return cond, bd_direct, bd_tf


def _transformed_scales(exact, g, order):
    """Magnitude of what the solver controls, expressed in the original variable.

    The solver integrates Y(r), Y_r, Y_rr with tolerance tol*(1+|.|); y^(i)(x) = sum_j M_ij(x) Y^(j)(r) with the
    Faa di Bruno matrix M of the map, so an error e_j in Y^(j) shows as sum_j |M_ij| e_j in y^(i)."""
    n = exact.shape[1]
    big = np.zeros((order, n))  # |Y^(j)| at the sample points
    mats = []
    big[0] = np.abs(exact[0])
    for i in range(n):
        m = ode_ref.bell_matrix(g[i, 0], g[i, 1], order - 1)
        mats.append(m)
        if order > 1:
            big[1:, i] = np.abs(np.linalg.solve(m, exact[1:, i]))
    ymax = 1.0 + big.max(axis=1)  # (order,)
    s = np.zeros(order)
    s[0] = max(ymax[0], 1.0)
    for k in range(1, order):
        s[k] = max(max(float(np.abs(m[k - 1]) @ ymax[1:]) for m in mats), ymax[0])
    # an error in a lower derivative cannot be smaller than the function-value scale
    return np.maximum(s, max(1.0, float(np.max(np.abs(exact)))))
