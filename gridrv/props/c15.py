"""C15 - ODE solvers return the solution of the stated problem under any transformation."""

from __future__ import annotations

import math
import signal

import numpy as np

from gridrv import core, instrument
from gridrv.oracles import ode_ref

PROP = "C15"
TITLE = "ODE solvers return the solution of the stated problem under any transformation"
REQUIRED_HOOKS = [
    "ode.solve_ode_ivp", "ode.solve_ode_bvp", "returned-callable:transform", "returned-callable:direct",
    # input classes that must have been visited
    "ivp-data:int-list", "ivp-data:int-tuple", "ivp-data:int64-array", "ivp-data:int32-array", "ivp-data:mixed-list", "bvp-data:int", "bvp-data:mixed",
    "interval-ends:python-int", "interval:far-out", "slope:tiny", "slope:huge", "equation-scaled:small", "equation-scaled:large",
    "transform:nested-inverse-depth-2", "transform:nested-inverse-depth-3", "purity-protocol", "bvp-max_nodes:default", "bvp-max_nodes:mesh+few", "bvp-max_nodes:1.05x-mesh", "bvp-max_nodes:1.2x-mesh",
]
REQUIRED_FAMILIES = ["ivp-o1", "ivp-o2", "ivp-o3", "bvp-o1", "bvp-o2", "bvp-o3", "ivp-pyfloat-span", "purity-ivp", "purity-bvp", "bvp-mesh-budget"]
BUDGET = {"quick": 900, "thorough": 9000}
MAX_DISCARD_FRACTION = 0.05
RULE = (
    "One case = one manufactured linear ODE (order 1-3; y = sin + exp + cubic with analytic derivatives validated against SymPy, "
    "coefficient functions alpha+beta*s(x) (s = sin, Lorentzian, tanh) or constants passed as callables / numbers / ndarray / list, "
    "leading coefficient >= 0.5, non-zero lower-order coefficients, f := sum a_k y^(k); all numbers drawn from the case rng) posed as "
    "IVP (exact derivatives at x0; forward, 25 % backward; NumPy- or Python-float interval ends) or as a well-posed BVP (order 1: one "
    "end; order 2: a0<0<a2 with Dirichlet or mixed Dirichlet/Neumann ends; order 3: y,y' at one end and y at the other on an interval "
    "<= 1 with small lower-order coefficients; derivative values converted to the transformed variable as documented), solved by the "
    "real solve_ode_ivp / solve_ode_bvp once directly and once through ONE coordinate transform. Deterministic cross product "
    "kind x order x IVP method (RK45, DOP853, Radau, BDF, LSODA) x tol (1e-4, 1e-6, 1e-8) x 29 transform configurations (Becke, Knowles k, "
    "Handy m, HandyMod m, LinearFinite, MultiExp on sub-intervals of [-0.9,0.9]; Identity, InverseRTransform of 9 maps, LinearInfinite, "
    "Exp, Power, Hyperbolic on sub-intervals of [0.1,6]; k,m in 1,2,3,2.5; decreasing maps IVP only), plus a Python-float-interval family "
    "over all 29 transforms; quick = 3, thorough = 40 independent random problems per cell. Decided per case: error of y, y', y'' (w.r.t. "
    "the original variable) against the exact solution at 24 points (both ends + 22 random) for both solves, prescribed conditions, "
    "transformed == direct, output shape incl. no_derivatives, no exception. A case is non-trivial when a solve converged and was "
    "compared; 'did not converge' is a discard. Input classes drawn per case from the case rng (each is a required hook): the whole "
    "equation (coefficients and right-hand side) multiplied by lambda, log-uniform in [1e-18,1e-6] (20 %) or [1e6,1e12] (10 %) - the "
    "solution must not change; maps with tiny (1e-7..1e-2, 10 %) or huge (1e2..1e6, 6 %) mean slope through their scale parameter "
    "(LinearFinite onto tiny/huge intervals, R, rmin, a; 8 decades of the inner scale for the InverseRTransform family); far-out "
    "intervals up to x = 2000 for the [0,inf) maps (15 %); prescribed data in INTEGER form - the manufactured solution gets a "
    "polynomial correction that makes y(x0), y'(x0), y''(x0) (BVP: the boundary values) integers, handed over as list of Python "
    "ints, tuple, int64 / int32 ndarray or mixed int/float list (50 % of the IVPs), BVP values as ints or mixed (50 %); interval "
    "ends as Python ints, x_span=(1, 3), and an integer ndarray as BVP mesh (25 % of the [0,inf) cases). "
    "Family purity-ivp / purity-bvp (every transform, orders 2-3 and some order 1 in quick, all orders x 4 problems in thorough): the "
    "returned callables of the case (direct and transformed) and the transformed callable of a SECOND manufactured problem are "
    "evaluated interleaved; one callable receives > 2200 distinct points in 60-150 calls of varying size (1-element arrays, 2-11, "
    "30-200, 300-900 points, sorted and unsorted), then the six earliest point sets and six later ones are evaluated again (same "
    "arrays: bit-identical results required) and the union of the earliest sets re-grouped in one reversed array (equal to 1e-9 x "
    "scale); every evaluation is compared with the manufactured solution. "
    "Family bvp-mesh-budget (every increasing transform x three mesh-size classes): non-uniform initial meshes of 200-5000 nodes "
    "(random spacing ratios up to 3, or graded), max_nodes = default / mesh+1..9 / 1.05 x mesh / 1.2 x mesh, a solution term "
    "cl*exp((x-b)/dl) that varies rapidly towards the right end and a Dirichlet condition there, evaluation at both ends and at 6+6 "
    "points within six mesh spacings of them; decided by the same accuracy / conditions-met clauses, direct and transformed. "
    "Transforms built from transforms: InverseRTransform nested to depth 2 over 14 base maps (acts like the base map) and to depth 3 "
    "over 6 [-1,1] maps (acts like its inverse), every order, IVP (method and tol rotating with the seed; thorough all methods x 3 "
    "problems) and BVP, with all clauses above; a rotating pair of nested labels also enters the purity and mesh-budget families."
)
ASSUMPTIONS = [
    "admissible = order <= 3, leading coefficient >= 0.5, interval strictly inside the transform's domain, increasing map for BVP (solve_bvp needs an increasing mesh), HyperbolicRTransform with b*(number of points-1) < 1 for every array it sees, slope of the map varying by at most a factor 50 over the interval (beyond that SciPy's adaptive error estimates are unreliable next to the branch point of the transformed equation: DOP853 error 0.04 at tol 1e-6 was measured at slope ratio 1700 - a property of the integrator, not of grid)",
    "solver tolerance: rtol = atol = tol for IVP, tol for BVP. accuracy clause: |error of y^(k)| <= F * tol * scale_k, scale_k = max_{s,t} sum_j |Phi(t,s)|_kj v_j(s): v(s) = local tolerance unit tol*(1+|Y^(j)|) of the variables the solver integrates, mapped to the original variable with the Faa di Bruno matrix of the map (g', g'' obtained numerically from the forward map only), Phi = propagator of the homogeneous equation (own tight SciPy integration in the original variable). F = 200 for BVP, 25000 for IVP (calibrated as 100 x the largest ratio seen on the unchanged tree, 1.2 / 248; an IVP solver controls the local error only, the global error grows with the number of steps); equivalence 2F; conditions 10",
    "the map must be invertible in floating point on the interval: eps*max|r| <= 2e-10*min|g'| (positions are recovered from r with that accuracy; saturating maps far out carry no information about x), g' finite and non-zero; within that envelope no lower or upper bound on |a_K g'^K| or on lambda (measured on the unchanged tree: accurate down to lambda*a_K*g'^K ~ 1e-38)",
    "a miss of an IVP accuracy clause counts only if it is reproduced when the same library call is repeated with method='Radau' (otherwise: observation 'integrator glitch'). Measured reason: SciPy's initial-step heuristic is not invariant under rescaling of the independent variable - through a map of slope 1e-4 DOP853 took the whole interval in one step and its estimate accepted an error of 4e-5 at tol 1e-10, while RK45/Radau solved the same library-built equation to 1e-9; solve_ode_ivp offers no first_step/max_step. An exception raised by SciPy's own OdeSolution constructor for repeated LSODA time points (first steps of 1e-22 on an interval of length 1e-7) is treated like 'did not converge' (discard)",
    "problems are non-stiff and well conditioned by construction (|a_k/a_K| <~ 2.6, interval length <= 2.5; BVP recipes of DESIGN C15)",
]
LEVEL_TEXT = "Exploration: seeded manufactured problems with exact solutions over the full cross product of kinds, orders, methods, tolerances and transform configurations; held on the executions produced."
TECHNIQUE = "runtime monitoring: reference-model monitor (method of manufactured solutions) on solve_ode_ivp / solve_ode_bvp and on the returned callable, plus differential monitor transformed-vs-direct"

TOLS = [1e-4, 1e-6, 1e-8]
METHODS = ["RK45", "DOP853", "Radau", "BDF", "LSODA"]
KM = [1, 2, 3, 2.5]
# |error| <= factor * tol * scale.  DESIGN starts from 100; calibrated per BUILDING.md (>= 100 x the largest ratio seen on the
# unchanged tree over quick seeds 0-3 and thorough seeds 0-1): BVP (collocation, global residual control) largest ratio 1.2 -> 200;
# IVP largest ratio 55 in the quick tier, 248 in the thorough tier (heavy tail: an adaptive IVP solver bounds the LOCAL error by
# tol, the global error grows with the number of steps; BDF / LSODA / RK45 at tol 1e-8 are the extremes) -> 25000.
# Every seeded break gives ratios 1e5..1e9 in hundreds of checks at tol <= 1e-6 (selfcheck/c15/RESULTS.md).
ACC_FACTOR = {"ivp": 25000.0, "bvp": 200.0}
EQ_FACTOR = {"ivp": 50000.0, "bvp": 400.0}
NPTS = 24
RHO_MAX = 50.0  # admissible variation max|g'|/min|g'| of the map over the interval

# (label, class) - class "A": domain [-1,1], interval inside [-0.9,0.9]; class "B": interval inside [0.1,6]
TRANSFORMS = (
    [("Becke", "A")]
    + [(f"Knowles(k={k})", "A") for k in KM]
    + [(f"Handy(m={m})", "A") for m in KM]
    + [(f"HandyMod(m={m})", "A") for m in KM]
    + [("LinearFinite", "A"), ("MultiExp", "A")]
    + [("Identity", "B"), ("Inverse(Becke)", "B"), ("Inverse(Knowles(k=2))", "B"), ("Inverse(Knowles(k=2.5))", "B"), ("Inverse(Handy(m=2))", "B"), ("Inverse(Handy(m=3))", "B")]
    + [("Inverse(HandyMod(m=3))", "B"), ("Inverse(HandyMod(m=2.5))", "B"), ("Inverse(LinearFinite)", "B"), ("Inverse(MultiExp)", "B")]
    + [("LinearInfinite", "B"), ("Exp", "B"), ("Power", "B"), ("Hyperbolic", "B")]
)
# transforms BUILT FROM transforms: InverseRTransform nested to depth 2 over every base map (Inverse(Inverse(T)) has T's domain and
# codomain: class of T) and to depth 3 over the [-1,1] maps (acts like Inverse(T): class B)
_BASES_A = ["Becke", "Knowles(k=2)", "Knowles(k=2.5)", "Handy(m=2)", "Handy(m=3)", "HandyMod(m=3)", "HandyMod(m=2.5)", "LinearFinite", "MultiExp"]
_BASES_B = ["Identity", "LinearInfinite", "Exp", "Power", "Hyperbolic"]
NESTED = (
    [(f"Inverse(Inverse({t}))", "A") for t in _BASES_A]
    + [(f"Inverse(Inverse({t}))", "B") for t in _BASES_B]
    + [(f"Inverse(Inverse(Inverse({t})))", "B") for t in ("Becke", "Knowles(k=2.5)", "Handy(m=3)", "HandyMod(m=3)", "LinearFinite", "MultiExp")]
)
TRANSFORM_CLASS = dict(TRANSFORMS + NESTED)
DECREASING = {lab for lab, _ in TRANSFORMS + NESTED if "MultiExp" in lab}  # decreasing maps: decreasing mesh, rejected by scipy's solve_bvp (documented exclusion)


PYFLOAT_NEEDS_SIZE = ("LinearInfinite", "Hyperbolic")  # their deriv() uses x.size (witnesses of the defect fixed in 1e13ca4)


def cases(tier, seed):
    reps = 2 if tier == "quick" else 40
    out = []
    for rep in range(reps):
        for order in (1, 2, 3):
            for ti, tol in enumerate(TOLS):
                if tier == "quick" and rep == 1 and ti != (seed + order) % len(TOLS):
                    continue  # quick: one complete cross product plus a seed-rotated third of a second one
                for label, cls in TRANSFORMS:
                    for method in METHODS:
                        cost = (1.0 + ti) * order * (2.0 if method in ("Radau", "BDF") else 1.0)
                        if rep == 0 and method in ("Radau", "BDF") and order == 2 and label == "Identity" and ti == 1:
                            cost = 1e9  # witness of the defect fixed in 0b50a94 (implicit methods, order >= 2): run first
                        out.append((f"ivp-o{order}", {"method": method, "tol": tol, "tf": label, "rep": rep}, cost))
                    if label not in DECREASING:
                        out.append((f"bvp-o{order}", {"tol": tol, "tf": label, "rep": rep}, (1.0 + 2 * ti) * order * 2.0))
        # x_span given as plain Python floats (the documented "tuple") through every transform
        for label, cls in TRANSFORMS:
            for order in (1, 2):
                out.append(("ivp-pyfloat-span", {"method": "RK45", "tol": 1e-6, "tf": label, "order": order, "rep": rep}, 1e9 if (rep == 0 and label in PYFLOAT_NEEDS_SIZE) else 1.0))
    # nested transforms: every nested label x every order, IVP (method and tol rotating) and BVP; thorough: all methods, 3 problems
    for rep in range(1 if tier == "quick" else 3):
        for i, (label, cls) in enumerate(NESTED):
            for order in (1, 2, 3):
                for mi, method in enumerate(METHODS):
                    if tier == "quick" and mi != (i + order + seed) % len(METHODS):
                        continue
                    tol = TOLS[(i + order + mi + seed + rep) % len(TOLS)]
                    out.append((f"ivp-o{order}", {"method": method, "tol": tol, "tf": label, "rep": rep, "nested": True}, 3.0 * order))
                if label not in DECREASING:
                    out.append((f"bvp-o{order}", {"tol": TOLS[(i + order + seed + rep + 1) % len(TOLS)], "tf": label, "rep": rep, "nested": True}, 4.0 * order))
    # purity of the returned callable: > 2000 distinct points in many calls of varying sizes, interleaved with a second
    # solution, then re-evaluation of the earliest point sets (expensive: ~1-2 s per case)
    for rep in range(1 if tier == "quick" else 4):
        pool = TRANSFORMS + ([NESTED[(seed + 7 * k) % len(NESTED)] for k in range(2)] if tier == "quick" else NESTED)
        for i, (label, cls) in enumerate(pool):
            for kind in ("ivp", "bvp"):
                if kind == "bvp" and label in DECREASING:
                    continue
                if tier == "quick" and label not in DECREASING and kind != ("ivp", "bvp")[(i + seed) % 2]:
                    continue  # quick: one kind per transform, alternating with the seed
                orders = (1, 2, 3) if tier == "thorough" else ((2 + (i + seed + (kind == "bvp")) % 2,) + ((1,) if i % 6 == 0 else ()))
                for order in orders:
                    prm = {"order": order, "tol": 1e-6, "tf": label, "rep": rep}
                    if kind == "ivp":
                        prm["method"] = METHODS[(i + order + rep) % len(METHODS)]
                    out.append((f"purity-{kind}", prm, 40.0 * order))
    # BVP meshes that are large relative to max_nodes (200 ... 5000 nodes, max_nodes from just above the mesh size to 1.2 x
    # and the default), non-uniform, a boundary condition at the right end that matters
    for rep in range(1 if tier == "quick" else 12):
        pool = TRANSFORMS + ([NESTED[(seed + 5 * k + 3) % len(NESTED)] for k in range(2)] if tier == "quick" else NESTED)
        for i, (label, cls) in enumerate(pool):
            if label in DECREASING:
                continue
            for j, nodes in enumerate(("200-700", "700-2500", "2500-5000")):
                order = 1 + (i + j + rep + seed) % 3
                tol = (3e-5, 3e-6, 1e-6)[j] if (i + rep) % 2 else (1e-5, 1e-6, 1e-7)[j]  # what such a mesh resolves without refinement
                out.append(("bvp-mesh-budget", {"order": order, "tol": tol, "tf": label, "nodes": nodes, "rep": rep}, 6.0 * (j + 1)))
    return out


# ------------------------------------------------------------------------------------------------ transforms
def _param(label):
    if "=" not in label:
        return None
    v = label.split("=")[1].rstrip(")")
    return float(v) if "." in v else int(v)


def _log_uniform(rng, lo, hi):
    return float(10.0 ** rng.uniform(np.log10(lo), np.log10(hi)))


def build_transform(label, rng, kind, a, b, slope_class="moderate", nodes_bound=0):
    """Real transform object with seeded admissible parameters for the x-interval [a, b]; returns (tf, description).

    slope_class "moderate": in 70 % of the cases the scale parameter is chosen so that the mean slope |r(b)-r(a)|/(b-a) of the
    map lies in [0.5, 2] (the solver then integrates over an interval of comparable length: sharp tolerances); otherwise it
    is drawn freely (R in [0.3, 3] etc.) and the tolerance scale accounts for the length of the transformed interval.
    slope_class "tiny" / "huge": the scale parameter is chosen so that the mean slope is log-uniform in [1e-7, 1e-2] /
    [1e2, 1e6] (LinearFinite onto tiny/huge intervals, tiny/huge R, rmin, a ...; for the InverseRTransform family the scale
    parameter of the inner map is drawn log-uniformly over 8 decades) - the transformed leading coefficient a_K g'^K is then
    tiny or huge but never vanishes."""
    import grid.rtransform as rt

    p = _param(label)
    depth = 0
    base = label
    while base.startswith("Inverse("):
        depth, base = depth + 1, base[8:-1]
    inv = depth % 2 == 1  # an odd number of inversions acts like Inverse(T), an even number like T itself
    name = base.split("(")[0]
    L = b - a
    extreme = slope_class != "moderate"
    if slope_class == "tiny":
        slope = _log_uniform(rng, 1e-7, 1e-2)
    elif slope_class == "huge":
        slope = _log_uniform(rng, 1e2, 1e6)
    else:
        slope = float(rng.uniform(0.5, 2.0))
    normalised = bool(rng.random() < 0.7) or extreme
    if inv:
        rmin = float(rng.uniform(-0.3, 0.0))
        R = _log_uniform(rng, 1e-2, 1e6) if extreme else float(rng.uniform(1.0, 4.0))
    else:
        rmin = float(rng.uniform(0.0, 0.5))
        R = float(rng.uniform(0.3, 3.0))
        if extreme and rng.random() < 0.5:
            rmin = 0.0
    far = max(6.0, b)  # right end of the region the interval was drawn from (6, or further out)

    def unit_span(make):  # |phi(b) - phi(a)| of the map with unit scale parameter
        t = make(1.0)
        v = t.transform(np.array([a, b]))
        return abs(float(v[1] - v[0]))

    if name in ("Becke", "Knowles", "Handy", "MultiExp"):
        make = {
            "Becke": lambda RR: rt.BeckeRTransform(rmin, RR),
            "Knowles": lambda RR: rt.KnowlesRTransform(rmin, RR, p),
            "Handy": lambda RR: rt.HandyRTransform(rmin, RR, p),
            "MultiExp": lambda RR: rt.MultiExpRTransform(rmin, RR),
        }[name]
        if normalised and not inv:
            R = L * slope / unit_span(make)
        tf, d = make(R), {"rmin": rmin, "R": R}
    elif name == "HandyMod":
        # admissible (increasing, pole-free) iff rmax - rmin > 2^m - 1 (so only moderate or huge ranges exist)
        rmax = rmin + 2.0**p - 1.0 + (_log_uniform(rng, 1.0, 1e7) if extreme else float(rng.uniform(1.0, 20.0)))
        if inv:
            rmax = max(rmax, far + 0.5 + (_log_uniform(rng, 1.0, 1e7) if extreme else float(rng.uniform(0.0, 10.0))))
        tf, d = rt.HandyModRTransform(rmin, rmax, p), {"rmin": rmin, "rmax": rmax}
    elif name == "LinearFinite":
        if inv:
            rmin = float(rng.uniform(-0.3, 0.05))
            rmax = far + 0.2 + (_log_uniform(rng, 1.0, 1e7) if extreme else float(rng.uniform(0.0, 5.8)))
        else:
            rmin = 0.0 if (extreme and rmin == 0.0) else float(rng.uniform(-1.0, 1.0))
            rmax = rmin + (2.0 * slope if normalised else float(rng.uniform(0.5, 10.0)))
        tf, d = rt.LinearFiniteRTransform(rmin, rmax), {"rmin": rmin, "rmax": rmax}
    elif name == "Identity":
        tf, d = rt.IdentityRTransform(), {}
    elif name == "LinearInfinite":
        bb = float(rng.uniform(0.5, 1.7)) * far
        rmin = 0.0 if (extreme and rmin == 0.0) else float(rng.uniform(0.0, 1.0))
        rmax = rmin + (bb * slope if normalised else float(rng.uniform(1.0, 10.0)))
        tf, d = rt.LinearInfiniteRTransform(rmin, rmax, bb), {"rmin": rmin, "rmax": rmax, "b": bb}
    elif name == "Exp":
        bb, ratio = float(rng.uniform(0.5, 1.7)) * far, float(rng.uniform(5.0, 100.0))
        rmin = float(rng.uniform(0.05, 0.5))
        if normalised:
            rmin = L * slope / unit_span(lambda q: rt.ExpRTransform(1.0, ratio, bb))
        tf, d = rt.ExpRTransform(rmin, rmin * ratio, bb), {"rmin": rmin, "rmax": rmin * ratio, "b": bb}
    elif name == "Power":
        bb, power = float(rng.uniform(0.5, 1.7)) * far, float(rng.uniform(2.0, 3.5))
        rmin = float(rng.uniform(0.05, 0.5))
        if normalised:
            rmin = L * slope / unit_span(lambda q: rt.PowerRTransform(1.0, (bb + 1.0) ** power, bb))
        tf, d = rt.PowerRTransform(rmin, rmin * (bb + 1.0) ** power, bb), {"rmin": rmin, "rmax": rmin * (bb + 1.0) ** power, "b": bb}
    elif name == "Hyperbolic":
        aa = slope if normalised else float(rng.uniform(0.3, 3.0))
        # the class requires b*(number of points - 1) < 1 for every array it sees: IVP sees <= NPTS points,
        # BVP sees the whole adaptive mesh (bounded by max_nodes = BVP_NODES_HYPERBOLIC); the pole 1/b stays beyond 8x the interval
        bb = float(rng.uniform(0.03, 0.12)) / far
        if kind == "bvp":
            bb = min(bb, float(rng.uniform(0.5, 0.9)) / max(BVP_NODES_HYPERBOLIC, nodes_bound))
        tf, d = rt.HyperbolicRTransform(aa, bb), {"a": aa, "b": bb}
    else:
        raise ValueError(label)
    if p is not None:
        d["k" if name == "Knowles" else "m"] = p
    d["normalised_slope"] = normalised
    d["slope_class"] = slope_class
    for _ in range(depth):
        tf = rt.InverseRTransform(tf)
    if depth > 1:
        d["inverse_depth"] = depth
    return tf, d


BVP_NODES_HYPERBOLIC = 1000


# ------------------------------------------------------------------------------------------------ monitors on the API
def setup(ctx):
    worst = ode_ref.self_test()
    ctx.count("oracle_selftest_ok")
    ctx.notes["oracle_selftest_worst_x1e18"] = int(worst * 1e18)
    import grid.ode as gode

    def post(res, exc, args, kwargs):
        if exc is None:
            ctx.check("returns-callable", "solve_ode", callable(res))

    instrument.wrap_function(ctx, gode, "solve_ode_ivp", post, hook="ode.solve_ode_ivp")
    instrument.wrap_function(ctx, gode, "solve_ode_bvp", post, hook="ode.solve_ode_bvp")


class _NoConvergence(Exception):
    pass


class _CpuLimit(BaseException):  # BaseException: must not be swallowed by an `except Exception` on the way up
    pass


CPU_LIMIT_S = 30.0  # CPU seconds (not wall clock) for ONE library call; normal cost 0.01-1 s


def _on_vtalrm(signum, frame):
    raise _CpuLimit()


class _cpu_limit:
    """A library call that burns more than CPU_LIMIT_S of process CPU time (seen with seeded breaks: an integrator that
    never gets anywhere on a corrupted equation) is abandoned and the case DISCARDED - a hang is never a violation, and
    it must not take the worker's other results down with it."""

    def __enter__(self):
        self.old = signal.signal(signal.SIGVTALRM, _on_vtalrm)
        signal.setitimer(signal.ITIMER_VIRTUAL, CPU_LIMIT_S)

    def __exit__(self, *exc):
        signal.setitimer(signal.ITIMER_VIRTUAL, 0.0)
        signal.signal(signal.SIGVTALRM, self.old)
        return False


_MISSING = object()


def _quantise(exc):
    msg = str(exc)
    if "non-broadcastable output operand" in msg:
        return "non-broadcastable-rhs"
    if "'float' object has no attribute 'size'" in msg:
        return "float.size"
    return "".join(ch for ch in msg[:48] if not ch.isdigit())


def _call(ctx, subject, fn, *args, **kwargs):
    """Call real library code.  'did not converge' -> _NoConvergence (case discarded); any other exception raised
    through library frames is a violation of 'solves-admissible-problem' (all inputs here are admissible)."""
    try:
        with _cpu_limit():
            return fn(*args, **kwargs)
    except _CpuLimit:
        raise _NoConvergence(f"abandoned after {CPU_LIMIT_S:.0f} CPU-s") from None
    except Exception as exc:
        if not core.is_library_exception(exc):
            raise
        if isinstance(exc, ValueError) and "didn't converge" in str(exc):
            raise _NoConvergence(str(exc)) from None
        if isinstance(exc, ValueError) and "`ts` must be strictly increasing or decreasing" in str(exc) and core.short_tb(exc, 1)[0].startswith("common.py"):
            # SciPy's LSODA wrapper produced repeated time points (first steps of 1e-22 on an interval of length 1e-7 with zero
            # initial derivatives) and its own OdeSolution constructor rejects them: an integrator failure like "did not converge"
            raise _NoConvergence("SciPy integrator returned repeated time points") from None
        ctx.fail("solves-admissible-problem", subject, f"raised:{type(exc).__name__}:{_quantise(exc)}", detail={"error": str(exc)[:300], "tb": core.short_tb(exc)})
        return _MISSING


# ------------------------------------------------------------------------------------------------ one case
def run_case(ctx, family, params):
    import grid.ode as gode

    rng = ctx.rng
    np.random.seed(int(rng.integers(0, 2**32 - 1)))  # solve_ode_bvp draws its default initial guess from the global RNG
    pyfloat = family == "ivp-pyfloat-span"
    purity = family.startswith("purity-")
    budget = family == "bvp-mesh-budget"
    kind = family[7:10] if purity else family[:3]
    order = int(params["order"]) if "order" in params else int(family[-1])
    tol, label, method = float(params["tol"]), params["tf"], params.get("method")
    cls = TRANSFORM_CLASS[label]
    short = kind == "bvp" and order == 3
    # ---- input classes drawn per case (all from the case rng; counted in the evidence, the important ones are required hooks)
    u = rng.random()
    slope_class = "tiny" if u < 0.10 else ("huge" if u < 0.16 else "moderate")  # magnitude of the slope g' of the map
    far_out = bool(cls == "B" and rng.random() < 0.15)  # interval far from the origin (up to 2000) for the [0, inf) maps
    int_ends = bool(cls == "B" and not far_out and not pyfloat and not budget and rng.random() < 0.25)  # interval ends are Python ints
    u = rng.random()  # the same equation multiplied by a common factor (solution unchanged)
    lam = _log_uniform(rng, 1e-18, 1e-6) if u < 0.20 else (_log_uniform(rng, 1e6, 1e12) if u < 0.30 else 1.0)
    if kind == "ivp":
        data_form = str(rng.choice(DATA_FORMS_IVP, p=DATA_FORMS_IVP_P))
    else:
        data_form = str(rng.choice(["float", "float", "int", "mixed"]))
    # interval + transform parameters: redrawn (shorter each time) until the map is admissible on the interval:
    # (i) its slope varies by at most RHO_MAX - beyond that the transformed ODE has a nearby branch point / huge stiffness
    #     ratio and the adaptive solvers' own error estimates (not the library) become unreliable (measured: DOP853 error
    #     0.04 at tol 1e-6, rho 1700);
    # (ii) it is invertible in floating point: positions are recovered from r to within eps*|r|/|g'|, required <= 2e-10
    #     (saturating maps far out: r = 1 - 1e-9 carries no information about x).
    L0 = float(rng.uniform(0.5, 1.0)) if short else float(rng.uniform(0.6, 1.8 if cls == "A" else 2.5))
    n_mesh, max_nodes = None, 5000
    if budget:
        lo_n, hi_n = (int(v) for v in params["nodes"].split("-"))
        n_mesh = int(_log_uniform(rng, lo_n, hi_n))
        choice = int(rng.integers(0, 4))
        max_nodes = (5000, n_mesh + int(rng.integers(1, 10)), int(1.05 * n_mesh) + 1, int(1.2 * n_mesh) + 1)[choice]
        ctx.hit("bvp-max_nodes:" + ("default", "mesh+few", "1.05x-mesh", "1.2x-mesh")[choice])
    for attempt in range(60):
        L = max(0.25, L0 * 0.9**attempt)
        if int_ends:
            L = 1 if (short or rng.random() < 0.5) else 2
            a = int(rng.integers(1, 6 - L + 1))
        elif far_out:
            a = _log_uniform(rng, 6.0, 2000.0)
        else:
            lo, hi = (-0.9, 0.9) if cls == "A" else (0.1, 6.0)
            a = float(rng.uniform(lo, hi - L))
        b = a + L
        tf, tfdesc = build_transform(label, rng, kind, float(a), float(b), slope_class, nodes_bound=max(max_nodes, n_mesh or 0))
        with np.errstate(all="ignore"):
            g1 = np.array([ode_ref.map_derivs(tf, x, nmax=1)[0] for x in np.linspace(a, b, 9)])
            rends = np.abs(np.asarray(tf.transform(np.array([float(a), float(b)])), dtype=float))
        if not (np.all(np.isfinite(g1)) and np.all(np.isfinite(rends)) and np.all(g1 != 0.0)):
            continue
        rho = float(np.max(np.abs(g1)) / np.min(np.abs(g1)))
        if rho <= RHO_MAX and np.all(g1 * g1[0] > 0) and np.finfo(float).eps * float(rends.max()) <= 2e-10 * float(np.min(np.abs(g1))):
            break
    else:
        ctx.discard("generator: no admissible interval for this map")
        return
    ctx.count("interval_redraws", attempt)
    mode = str(rng.choice(["callable", "callable", "mixed", "const"]))
    pr = ode_ref.random_problem(rng, order, xc=0.5 * (a + b), kind=kind, constant=(mode == "const"))
    pr.lam = lam
    if budget:  # a term that varies rapidly towards the right end, so that WHERE the right-end condition is imposed matters
        pr.sol.update({"cl": float(rng.choice([-1.0, 1.0]) * rng.uniform(0.4, 1.0)), "dl": float(rng.uniform(0.15, 0.4)) * (b - a) / 1.5, "xb": float(b)})
    if mode == "const":
        mode = str(rng.choice(["array", "list", "mixed", "callable"]))
    backward = bool(kind == "ivp" and rng.random() < 0.25)
    # prescribed data in integer form: the manufactured solution gets a polynomial correction that makes the prescribed
    # values integers (f follows), so that they can be handed over as Python ints / integer arrays
    if kind == "ivp":
        spec = [(1 if backward else 0, k) for k in range(order)]
    elif budget:
        spec = {1: [(1, 0)], 2: [(0, 0), (1, 0)], 3: [(0, 0), (0, 1), (1, 0)]}[order][:: (1 if rng.random() < 0.5 else -1)]
    else:
        spec = _bvp_spec(rng, order)
    int_values = None
    if data_form not in ("float", "float-list", "float-array"):
        int_values = ode_ref.integerise(pr, [((a, b)[e], k) for e, k in spec], rng)
    for key, on in (("slope:" + slope_class, slope_class != "moderate"), ("interval:far-out", far_out), ("interval-ends:python-int", int_ends),
                    ("equation-scaled:small", lam < 1.0), ("equation-scaled:large", lam > 1.0), (f"{kind}-data:{data_form}", True)):
        if on:
            ctx.hit(key)
    subject = f"{kind}:{label}"
    esubj = f"{kind}-{method}:order{order}:{label}" if kind == "ivp" else f"bvp:order{order}:{label}"  # subject of exceptions
    if pyfloat:
        esubj += ":python-float-span"
    ctx.case_note("interval", [round(a, 4), round(b, 4)])
    ctx.case_note("coeff_mode", mode)
    ctx.case_note("transform", tfdesc)
    ctx.count(f"coeff_mode:{mode}")
    if label.startswith("Inverse(Inverse("):
        ctx.hit("transform:nested-inverse-depth-" + str(label.count("Inverse(")))

    xs = np.concatenate(([float(a), float(b)], np.sort(rng.uniform(a, b, NPTS - 2))))
    if budget:  # 6 + 6 of the interior points within a few mesh spacings of the two ends
        hh = (b - a) / n_mesh
        xs[2:8] = np.sort(a + hh * rng.uniform(0.0, 6.0, 6))
        xs[-6:] = np.sort(b - hh * rng.uniform(0.0, 6.0, 6))
    exact = pr.exact(xs)  # (K, N)

    # derivatives of the implemented map from its forward map only (never tf.deriv*)
    g = np.array([ode_ref.map_derivs(tf, x) for x in xs])  # (N, 2)
    g_end = {0: g[0, 0], 1: g[1, 0]}
    direction = 0 if kind == "bvp" else (-1 if backward else 1)
    with np.errstate(all="ignore"):
        rab = np.asarray(tf.transform(np.array([float(a), float(b)])), dtype=float)
    rlen = abs(float(rab[1] - rab[0]))  # length of the interval the transformed solve integrates over
    scale_d = _scales(pr, xs, exact, None, order, direction, b - a)
    scale_t = np.maximum(_scales(pr, xs, exact, g, order, direction, rlen), scale_d)
    ctx.case_note("scale_direct", [float(s) for s in scale_d])
    ctx.case_note("scale_transformed", [float(s) for s in scale_t])
    info = {"tol": tol, "method": method, "tf": tfdesc, "interval": [a, b], "coeff_mode": mode, "slope_ratio": rho, "lam": lam, "data_form": data_form, "slope": float(np.median(np.abs(g[:, 0])))}
    ctx.case_note("lam", lam)
    ctx.case_note("data_form", data_form)

    try:
        if kind == "ivp":
            x0, x1 = (b, a) if backward else (a, b)
            i0 = 1 if backward else 0
            y0 = [float(v) for v in exact[:, i0]]
            y0_arg = _ivp_data(data_form, y0, int_values)
            # interval ends as NumPy floats or plain Python floats (family ivp-pyfloat-span: always Python floats; the
            # derivative methods of LinearInfinite / Hyperbolic use x.size, fixed in 1e13ca4)
            np_span = (not pyfloat) and rng.random() < 0.5
            span = (np.float64(x0), np.float64(x1)) if np_span else (float(x0), float(x1))
            if int_ends:
                span = (int(x0), int(x1))  # the documented "(int, int)"
            nod = bool(order >= 2 and rng.random() < 0.15) and not purity
            kw = {"method": method, "rtol": tol, "atol": tol}
            sol_d = _call(ctx, esubj + ":direct", gode.solve_ode_ivp, span, pr.fx_callback(), pr.coeff_arg(mode), y0_arg, **kw)
            sol_t = _call(ctx, esubj, gode.solve_ode_ivp, span, pr.fx_callback(), pr.coeff_arg(mode), y0_arg, tf, no_derivatives=nod, **kw)
            cond = [(i0, k, y0[k] if int_values is None else int_values[k]) for k in range(order)]
            ctx.count("ivp-backward" if backward else "ivp-forward")
        else:
            cond, bd_direct, bd_tf = _bvp_conditions(rng, spec, exact, g_end, data_form, int_values)
            n0 = int(rng.integers(8, 30))
            mesh = np.linspace(a, b, n0)
            if rng.random() < 0.5:
                mesh[1:-1] += rng.uniform(-0.3, 0.3, n0 - 2) * (b - a) / (n0 - 1)
            if int_ends and b - a >= 2 and rng.random() < 0.5:
                mesh = np.arange(a, b + 1)  # integer ndarray as initial mesh
                n0 = mesh.size
            if budget:  # large non-uniform mesh: random spacings (ratio up to 3) or graded towards one end
                n0 = n_mesh
                inc = rng.uniform(1.0, 3.0, n0 - 1) if rng.random() < 0.5 else np.linspace(1.0, float(rng.uniform(0.3, 3.0)), n0 - 1)
                mesh = a + (b - a) * np.concatenate(([0.0], np.cumsum(inc))) / float(np.sum(inc))
                mesh[-1] = b
                ctx.case_note("mesh", {"nodes": n0, "max_nodes": max_nodes})
            guess = None if rng.random() < 0.6 else np.zeros((order, n0))
            nod = bool(order >= 2 and rng.random() < 0.15) and not purity
            kw = {"tol": tol, "max_nodes": max_nodes if budget else (BVP_NODES_HYPERBOLIC if "Hyperbolic" in label else 5000), "initial_guess_y": guess}
            if budget and max_nodes == 5000 and "Hyperbolic" not in label and rng.random() < 0.5:
                del kw["max_nodes"]  # the default of solve_ode_bvp
            sol_d = _call(ctx, esubj + ":direct", gode.solve_ode_bvp, mesh.copy(), pr.fx_callback(), pr.coeff_arg(mode), bd_direct, **kw)
            if nod:  # the default of solve_ode_bvp
                sol_t = _call(ctx, esubj, gode.solve_ode_bvp, mesh.copy(), pr.fx_callback(), pr.coeff_arg(mode), bd_tf, tf, **kw)
            else:
                sol_t = _call(ctx, esubj, gode.solve_ode_bvp, mesh.copy(), pr.fx_callback(), pr.coeff_arg(mode), bd_tf, tf, no_derivatives=False, **kw)
    except _NoConvergence as exc:
        ctx.discard("solver did not converge: " + str(exc)[-24:])
        return

    # ---------------------------------------------------------------- the returned callables
    yd = yt = _MISSING
    try:
        if sol_d is not _MISSING:
            yd = _call(ctx, esubj + ":direct:returned-callable", lambda: np.asarray(sol_d(xs.copy())))
            ctx.hit("returned-callable:direct")
        if sol_t is not _MISSING:
            yt = _call(ctx, esubj + ":returned-callable", lambda: np.asarray(sol_t(xs.copy())))
            ctx.hit("returned-callable:transform")
    except _NoConvergence as exc:
        ctx.discard("returned callable: " + str(exc)[-24:])
        return
    if yd is not _MISSING and not ctx.check("output-shape", f"{kind}:direct", yd.shape == (order, NPTS), detail={"shape": list(yd.shape)}):
        yd = _MISSING
    if yt is not _MISSING:
        want_t = (NPTS,) if nod else (order, NPTS)
        if not ctx.check("output-shape", subject + (":no_derivatives" if nod else ""), yt.shape == want_t, detail={"shape": list(yt.shape), "want": list(want_t)}):
            yt = _MISSING
        elif nod:
            ctx.count("no_derivatives=True")
            yt = yt[None, :]

    # A violation of an accuracy clause must be reproducible with an independent integrator on the SAME library-built
    # equation: SciPy's explicit/multistep methods occasionally accept a bad step (measured: DOP853 takes the whole transformed
    # interval in ONE step when the map has a tiny slope - its initial-step heuristic is not invariant under rescaling of the
    # independent variable - and its error estimate, far from the asymptotic regime, accepts an error of 4e-5 at tol 1e-10; RK45
    # and Radau solve the same library-built equation correctly).  When the primary method misses the tolerance the same call is
    # repeated with method="Radau" (largest ratio ever seen with Radau: 0.4); if that meets the tolerance the miss is counted as
    # an integrator glitch (observation) and the clauses are decided on the Radau solve; if it does not (or raises), the failure
    # stands.  A defect of the library shows with every integrator.
    if kind == "ivp" and method != "Radau":
        def misses(y, sc):
            return any(not (float(np.max(np.abs(y[k] - exact[k]))) <= ACC_FACTOR[kind] * tol * sc[k]) for k in range(y.shape[0]))

        def confirm(with_tf):
            try:
                with _cpu_limit():
                    kw2 = dict(kw, method="Radau")
                    if with_tf:
                        alt = gode.solve_ode_ivp(span, pr.fx_callback(), pr.coeff_arg(mode), y0_arg, tf, no_derivatives=nod, **kw2)
                    else:
                        alt = gode.solve_ode_ivp(span, pr.fx_callback(), pr.coeff_arg(mode), y0_arg, **kw2)
                    ya = np.asarray(alt(xs.copy()))
            except (Exception, _CpuLimit):
                return None
            if with_tf and nod and ya.shape == (NPTS,):
                ya = ya[None, :]
            if ya.shape != ((1 if (with_tf and nod) else order), NPTS) or misses(ya, scale_t if with_tf else scale_d):
                return None
            return alt, ya

        for with_tf in (False, True):
            ycur = yt if with_tf else yd
            if ycur is _MISSING or not misses(ycur, scale_t if with_tf else scale_d):
                continue
            ctx.hit("confirmation-solve:Radau")
            got = confirm(with_tf)
            if got is None:
                continue  # confirmed (or not refutable): the failure is recorded below
            worst = max(float(np.max(np.abs(ycur[k] - exact[k]))) / (tol * (scale_t if with_tf else scale_d)[k]) for k in range(ycur.shape[0]))
            ctx.count(f"integrator-glitch-not-a-library-failure:{method}")
            ctx.observe(f"SciPy {method} missed the tolerance on a library-built equation that Radau solves within tolerance", ratio=worst, transformed=with_tf, **info)
            if with_tf:
                sol_t, yt = got
            else:
                sol_d, yd = got

    # accuracy against the exact solution, per derivative order; prescribed conditions (values w.r.t. the ORIGINAL
    # variable: the exact derivatives at the end points)
    if yd is not _MISSING:
        for k in range(order):
            err = float(np.max(np.abs(yd[k] - exact[k])))
            ctx.check(f"{kind}-direct-solution-accuracy", f"{kind}:direct", err / (tol * scale_d[k]), ACC_FACTOR[kind], sig=f"order{order}:d{k}", detail={"err": err, "scale": scale_d[k], **info, "problem": pr.describe()})
        for end, k, val in cond:
            ctx.check(f"{kind}-conditions-met", f"{kind}:direct", abs(yd[k, end] - val) / (tol * scale_d[k]), COND_FACTOR, sig=f"order{order}:d{k}", detail={"got": float(yd[k, end]), "want": val, "end": end, **info})
    if yt is not _MISSING:
        for k in range(yt.shape[0]):
            err = float(np.max(np.abs(yt[k] - exact[k])))
            ctx.check(f"{kind}-transformed-solution-accuracy", subject, err / (tol * scale_t[k]), ACC_FACTOR[kind], sig=f"order{order}:d{k}", detail={"err": err, "scale": scale_t[k], **info, "problem": pr.describe()})
            if yd is not _MISSING:
                dif = float(np.max(np.abs(yt[k] - yd[k])))
                ctx.check(f"{kind}-transform-equivalence", subject, dif / (tol * scale_t[k]), EQ_FACTOR[kind], sig=f"order{order}:d{k}", detail={"diff": dif, "scale": scale_t[k], **info})
        for end, k, val in cond:
            if k < yt.shape[0]:
                ctx.check(f"{kind}-conditions-met", subject, abs(yt[k, end] - val) / (tol * scale_t[k]), COND_FACTOR, sig=f"order{order}:d{k}", detail={"got": float(yt[k, end]), "want": val, "end": end, **info})
        ctx.check("callbacks-used", subject, pr.calls["fx"] > 0 and (pr.calls["coef"] > 0 or mode in ("array", "list") or pr.is_constant()))
        # the returned callable is a function of the points it is given, on EVERY call: evaluate it again on a second
        # point set with the same length and the same first/last elements but different interior points
        xs2 = xs.copy()
        xs2[2:-1] = np.sort(rng.uniform(a, b, NPTS - 3))
        exact2 = pr.exact(xs2)
        g2 = np.array([ode_ref.map_derivs(tf, x) for x in xs2])
        scale2 = np.maximum(_scales(pr, xs2, exact2, g2, order, direction, rlen), _scales(pr, xs2, exact2, None, order, direction, b - a))
        try:
            y2 = _call(ctx, esubj + ":returned-callable:second-point-set", lambda: np.asarray(sol_t(xs2.copy())))
        except _NoConvergence:
            y2 = _MISSING
        if y2 is not _MISSING and y2.shape == ((NPTS,) if nod else (order, NPTS)):
            y2 = y2[None, :] if nod else y2
            for k in range(y2.shape[0]):
                err = float(np.max(np.abs(y2[k] - exact2[k])))
                ctx.check(f"{kind}-returned-callable-second-point-set", subject, err / (tol * scale2[k]), ACC_FACTOR[kind], sig=f"order{order}:d{k}", detail={"err": err, "scale": scale2[k], **info})
            ctx.hit("returned-callable:second-point-set")
    if purity and yt is not _MISSING and yd is not _MISSING:
        _purity_protocol(ctx, gode, kind, label, subject, esubj, order, tol, method, tf, tfdesc, pr, mode, a, b, spec, g_end, backward, sol_t, sol_d, scale_t, scale_d, rng, info)


COND_FACTOR = 10.0


PURITY_POINTS = 2200  # distinct points handed to ONE returned callable before the earliest sets are evaluated again


def _purity_protocol(ctx, gode, kind, label, subject, esubj, order, tol, method, tf, tfdesc, prA, mode, a, b, spec, g_end, backward, solA_t, solA_d, scale_t, scale_d, rng, info):
    """The value of a returned callable depends only on the points it is given.

    Solution A (direct and transformed callables of this case) and a second, different manufactured problem B on the same
    interval/transform are evaluated interleaved: more than PURITY_POINTS distinct points go to A's callables in calls of
    varying sizes (1-element arrays, small, medium and big arrays, sorted and unsorted); then the earliest point sets, a sample
    of the later ones and a re-grouped/reversed union of the earliest sets are evaluated again.  Re-evaluating the SAME array
    must return bit-identical values; every evaluation must agree with the manufactured solution."""
    a, b = float(a), float(b)
    # ---- solution B
    prB = ode_ref.random_problem(rng, order, xc=0.5 * (a + b), kind=kind, constant=False)
    ends = np.array([a, b])
    exB = prB.exact(ends)
    try:
        if kind == "ivp":
            i0 = 1 if backward else 0
            span = (float(ends[i0]), float(ends[1 - i0]))
            y0B = [float(v) for v in exB[:, i0]]
            solB_t = _call(ctx, esubj + ":second-solution", gode.solve_ode_ivp, span, prB.fx_callback(), prB.coeff_arg("callable"), y0B, tf, method=method, rtol=tol, atol=tol)
        else:
            _, _, bdB = _bvp_conditions(rng, spec, exB, g_end, "float", None)
            solB_t = _call(ctx, esubj + ":second-solution", gode.solve_ode_bvp, np.linspace(a, b, 15), prB.fx_callback(), prB.coeff_arg("callable"), bdB, tf, tol=tol, no_derivatives=False,
                           max_nodes=BVP_NODES_HYPERBOLIC if "Hyperbolic" in label else 5000)
    except _NoConvergence:
        solB_t = _MISSING
    if solB_t is _MISSING:
        ctx.count("purity:second-solution-unavailable")
    # ---- call plan
    cap = 10**9
    if "Hyperbolic" in label:
        cap = max(2, int(0.9 / tfdesc["b"]))  # the class wants b*(number of points - 1) < 1 for every array
    sizes = [1, 1, 3, 7, 24, 60]
    while sum(sizes) < PURITY_POINTS:
        u = rng.random()
        sizes.append(1 if u < 0.25 else (int(rng.integers(2, 12)) if u < 0.5 else (int(rng.integers(30, 200)) if u < 0.8 else int(rng.integers(300, 900)))))
    sizes = [min(n, cap) for n in sizes]
    while sum(sizes) < PURITY_POINTS:
        sizes.append(cap)
    sets = []
    for i, n in enumerate(sizes):
        pts = rng.uniform(a, b, n)
        if i == 2:
            pts[0], pts[-1] = a, b
        if rng.random() < 0.5:
            pts = np.sort(pts)
        sets.append(pts)
    tgt = {"A:transformed": (solA_t, prA, scale_t), "A:direct": (solA_d, prA, scale_d)}
    if solB_t is not _MISSING:
        tgt["B:transformed"] = (solB_t, prB, None)
    first = {k: [] for k in tgt}
    margin = 2.0  # the scales were computed on the 24 sample points of the case

    def evaluate(name, pts, phase):
        sol, prob, sc = tgt[name]
        try:
            y = _call(ctx, f"{esubj}:returned-callable:{phase}", lambda: np.array(sol(pts.copy()), dtype=float))
        except _NoConvergence:
            return None
        if y is _MISSING:
            return None
        ok = ctx.check("output-shape", f"{subject}:{phase}", y.shape == (order, pts.size), detail={"shape": list(y.shape), "points": int(pts.size)})
        if not ok:
            return None
        if sc is not None:
            ex = prob.exact(pts)
            for k in range(order):
                err = float(np.max(np.abs(y[k] - ex[k])))
                ctx.check(f"{kind}-callable-many-points-accuracy", f"{subject}:{name.split(':')[1]}", err / (tol * margin * sc[k]), ACC_FACTOR[kind], sig=f"order{order}:d{k}:{phase}",
                          detail={"err": err, "scale": sc[k], "points": int(pts.size), "phase": phase, **info})
        return y

    total = 0
    for i, pts in enumerate(sets):
        first["A:transformed"].append(evaluate("A:transformed", pts, "first-evaluation"))
        total += pts.size
        if i % 3 == 0:
            first["A:direct"].append(evaluate("A:direct", pts, "first-evaluation"))
            if "B:transformed" in tgt:
                first["B:transformed"].append(evaluate("B:transformed", sets[i][: min(pts.size, 40)], "first-evaluation"))
    ctx.count("purity:points-to-one-callable", total)
    ctx.count("purity:calls-to-one-callable", len(sets))
    ctx.case_note("purity", {"points": total, "calls": len(sets)})
    # ---- re-evaluation of the earliest sets (+ a sample of later ones), same arrays: bit-identical
    again = list(range(6)) + sorted(int(v) for v in rng.choice(np.arange(6, len(sets)), size=min(6, len(sets) - 6), replace=False))
    for name in tgt:
        stride = 1 if name == "A:transformed" else 3
        for i in again:
            if i % stride:
                continue
            y1 = first[name][i // stride]
            pts = sets[i] if name != "B:transformed" else sets[i][: min(sets[i].size, 40)]
            if y1 is None:
                continue
            y2 = evaluate(name, pts, "re-evaluation")
            if y2 is None:
                continue
            same = bool(np.array_equal(y1, y2))
            dif = float(np.max(np.abs(y1 - y2))) if y1.shape == y2.shape else float("nan")
            ctx.check(f"{kind}-callable-pure-same-points-same-values", f"{subject}:{name.split(':')[1]}", same, sig=f"order{order}:call{'<6' if i < 6 else '>=6'}:size{'1' if pts.size == 1 else ('<=24' if pts.size <= 24 else '>24')}",
                      detail={"max_abs_difference": dif, "call": i, "points": int(pts.size), "solution": name, **info})
    # ---- the union of the earliest sets, re-grouped in one reversed array: same values up to rounding
    for name in ("A:transformed", "A:direct"):
        stride = 1 if name == "A:transformed" else 3
        idx = [i for i in range(6) if i % stride == 0 and first[name][i // stride] is not None]
        if not idx:
            continue
        pts = np.concatenate([sets[i] for i in idx])[::-1].copy()
        if pts.size > cap:
            continue
        y1 = np.concatenate([first[name][i // stride] for i in idx], axis=1)[:, ::-1]
        y2 = evaluate(name, pts, "re-grouped")
        if y2 is None:
            continue
        sc = tgt[name][2]
        for k in range(order):
            ctx.check(f"{kind}-callable-pure-regrouped-points", f"{subject}:{name.split(':')[1]}", float(np.max(np.abs(y1[k] - y2[k]))) / sc[k], 1e-9, sig=f"order{order}:d{k}", detail={"points": int(pts.size), **info})
    ctx.hit("purity-protocol")


def _bvp_spec(rng, order):
    """Which derivative is prescribed at which end - the well-posed combinations of DESIGN C15."""
    if order == 1:
        spec = [(int(rng.integers(0, 2)), 0)]
    elif order == 2:
        spec = [[(0, 0), (1, 0)], [(0, 0), (1, 0)], [(0, 0), (1, 1)], [(0, 1), (1, 0)]][int(rng.integers(0, 4))]
    else:
        spec = [[(0, 0), (0, 1), (1, 0)], [(1, 0), (1, 1), (0, 0)]][int(rng.integers(0, 2))]
    if rng.random() < 0.5:
        spec = spec[::-1]
    return spec


def _bvp_conditions(rng, spec, exact, g_end, data_form, int_values):
    """Returns (cond, bd_direct, bd_transformed): cond = [(end, k, exact y^(k)(x_end))]; derivative VALUES for the
    transformed call are converted to the new variable as the API documents (dY/dr = y'(x)/g'(x)).
    data_form "int": every prescribed value of the direct call (and the function values of the transformed call) is a Python
    int; "mixed": function values ints, derivative values floats; "float": floats."""
    if int_values is None:
        cond = [(e, k, float(exact[k, e])) for e, k in spec]
    else:
        cond = [(e, k, int(n)) for (e, k), n in zip(spec, int_values)]
    as_tuple = rng.random() < 0.5
    mk = (lambda e, k, v: (e, k, v)) if as_tuple else (lambda e, k, v: [e, k, v])

    def form(k, v):
        if data_form == "int" or (data_form == "mixed" and k == 0):
            return int(v)
        return float(v)

    bd_direct = [mk(e, k, form(k, v)) for e, k, v in cond]
    bd_tf = [mk(e, k, form(k, v) if k == 0 else float(v) / g_end[e]) for e, k, v in cond]
    return cond, bd_direct, bd_tf


DATA_FORMS_IVP = ["float-list", "float-array", "int-list", "int-tuple", "int64-array", "int32-array", "mixed-list"]
DATA_FORMS_IVP_P = [0.25, 0.25, 0.1, 0.1, 0.1, 0.1, 0.1]


def _ivp_data(form, y0, ints):
    """The initial data in the form the caller might write them (the API documents `list[K] or ndarray(K)`)."""
    if form == "float-list":
        return list(y0)
    if form == "float-array":
        return np.array(y0)
    if form == "int-list":
        return [int(n) for n in ints]
    if form == "int-tuple":
        return tuple(int(n) for n in ints)
    if form == "int64-array":
        return np.array(ints, dtype=np.int64)
    if form == "int32-array":
        return np.array(ints, dtype=np.int32)
    if form == "mixed-list":
        return [int(n) if k % 2 == 0 else float(n) for k, n in enumerate(ints)]
    raise ValueError(form)


def _scales(pr, xs, exact, g, order, direction, length=1.0):
    """Per derivative order: magnitude, in the ORIGINAL variable, of the error a solver working to within tol may leave.

    Model (standard global-error representation): the solver commits, at every position s, a local error of at most
    tol*(1+|Y^(j)(s)|) in each component of the vector it integrates - (y, y', y'') for the direct solve,
    (Y, Y_r, Y_rr)(r) for the transformed one; expressed in the original variable this local error is
    v(s) = |blockdiag(1, M(s))| (1 + |Y(s)|) with the Faa di Bruno matrix M of the map (g', g'' from the forward map), and
    it is carried to position t by the propagator Phi(t, s) of the homogeneous ODE (computed here by an independent tight
    integration of the companion system in the original variable).  scale_k = max_{s,t} sum_j |Phi(t,s)|_kj v_j(s), s ranging
    over the positions passed before t (IVP, direction +1/-1) or over the whole interval (BVP, direction 0).
    `g` None = direct solve (M = identity).
    BVP (direction 0): SciPy's collocation solver bounds the RESIDUAL of Y^(j)' relative to 1+|Y^(j)'|, i.e. an error density
    per unit length of the variable it integrates over; `length` = |r(b)-r(a)| of that variable, and v is multiplied by
    max(1, length) (measured: order-1 BVP through a map of slope 1.9e3, error 29*tol)."""
    n = xs.size
    v = (1.0 + np.abs(exact)) * (max(1.0, float(length)) if direction == 0 else 1.0)  # (K, n)
    if g is not None and order > 1:
        for i in range(n):
            m = ode_ref.bell_matrix(g[i, 0], g[i, 1], order - 1)
            yr = np.linalg.solve(m, exact[1:, i])
            v[1:, i] = (np.abs(m) @ (1.0 + np.abs(yr))) * (max(1.0, float(length)) if direction == 0 else 1.0)
    phi = ode_ref.propagators(pr, xs)  # (n, K, K): Phi(xs[i], xs[0])
    inv = np.linalg.inv(phi)
    P = np.abs(np.einsum("tkl,slj->tskj", phi, inv))  # |Phi(t, s)|
    contrib = np.einsum("tskj,js->tsk", P, v)  # (t, s, K)
    if direction != 0:
        later = (xs[:, None] - xs[None, :]) * direction >= 0  # s passed before (or at) t
        contrib = np.where(later[:, :, None], contrib, 0.0)
    return contrib.max(axis=(0, 1))
