"""C06 - atom-in-molecule weights (Becke, Hirshfeld) form a partition of unity on every geometry."""

from __future__ import annotations

import numpy as np

from gridrv.monitors import becke_c06 as mon
from gridrv.monitors import roundtrip

PROP = "C06"
TITLE = "Atom-in-molecule weights form a partition of unity on every geometry"
REQUIRED_HOOKS = [
    "BeckeWeights.generate_weights",
    "BeckeWeights.compute_weights",
    "BeckeWeights.compute_atom_weight",
    "BeckeWeights.__call__",
    "BeckeWeights.__call__:chunks>=2",
    "BeckeWeights.__call__:chunks>=5",
    "HirshfeldWeights.__call__",
] + [f"clone:{k}" for k in roundtrip.KINDS]
REQUIRED_FAMILIES = ["clones-options", "input-forms", "becke-structured", "becke-random", "becke-noble", "becke-select", "becke-axis", "becke-molgrid", "hirshfeld-random", "hirshfeld-molgrid"]
BUDGET = {"quick": 900, "thorough": 9000}
RULE = (
    "One case = one molecule (1..40 atoms, elements 1..86 incl. He/Ne/Ar/Kr/Xe/At/Rn whose Bragg radius is NaN, geometries random / "
    "collinear / near-coincident pairs >= 0.05 bohr / lattice / coplanar, switching order 1..6, sometimes custom radii) with one point set "
    "(all nuclei, nuclei+1e-9, bisector planes, near points, shells 1e-3..1e12 bohr). For each case the full atoms x points weight matrix is "
    "obtained by four routes of the real API (chunked BeckeWeights.__call__ on the tiled point set, generate_weights with select blocks, "
    "compute_weights with select blocks, compute_atom_weight per atom) plus segmented calls with random segment tables (empty segments, "
    "non-identity select); decided: sum over atoms = 1 per route, routes equal, rigid motion, relabeling; post-conditions attached to the five "
    "API functions decide finiteness, [0,1], own nucleus 1 / other nuclei 0 on EVERY call (including every internal chunk). The number of "
    "generate_weights calls per __call__ is counted from the hook. becke-structured is a seed-independent grid over atom count x geometry x "
    "element kind; becke-axis sweeps all 86 partners of one element along the internuclear axis (monotone cell function). Hirshfeld: H,C,N,O "
    "molecules, per-atom calls sum to one, values equal an own natural-cubic-spline share. input-forms: the same VALUES (chosen representable) are handed "
    "over as int64/int32 lattices (np.mgrid), float32, strided row/column views, Fortran order, read-only arrays, int32/float atnums, for points and/or "
    "atcoords, through every route; the result must equal the one for the float64 C-contiguous copy (1e-13; float32 coordinates: within the "
    "single-precision conditioning of the formula). clones-options: the BeckeWeights / HirshfeldWeights object (non-default order, "
    "custom radii) goes through copy / deepcopy / pickle (kind rotates over the cases) and must give identical weights by every route, the "
    "original unchanged; select / pt_ind / indices / atnums / order given as tuple, list, int32/int64/uint8 arrays or NumPy scalars must give "
    "the weights of the plain-Python form (forms the library rejects today are counted, never alarmed on). A case is non-trivial when at least one group "
    "check was evaluated; distinct = distinct generator parameters."
)
ASSUMPTIONS = [
    "atoms at distinct positions at least 0.05 bohr apart; points whose floating-point coordinate spacing is at least 64x below the smallest internuclear distance (|p| up to 1e12 bohr); beyond that nothing is decided (recorded as observation)",
    "atnums are int64 NumPy arrays of elements 1..86; the segment table covers all points (0 .. N, non-decreasing, empty segments allowed)",
    "Hirshfeld reference share = natural cubic spline of the shipped (r, dn) tables, own second-derivative/Thomas implementation in long double, tolerance in units of the float64 conditioning of that spline",
    "rigid-motion equality is decided per value against 64x a first-order float64 forward-error model of w=P_A/sum P (cancellation eps/s in the cell functions + eps|coords|/R_AB in the distances; uses the documented radii and formula only as conditioning floor) and only where that bound is below 1e-6",
    "cell-monotone (weight of A non-increasing from nucleus A to nucleus B in a diatomic) is a consequence of the |a|<=1/2 clipping named in the mechanism; it is not in the literal statement",
]
LEVEL_TEXT = "Held on every executed call of the five public functions over the seeded molecule/point families listed in the rule; not a proof for unvisited geometries."
TECHNIQUE = "runtime monitoring: post-conditions on BeckeWeights/HirshfeldWeights entry points + group invariants (partition of unity, route equality, metamorphic rigid motion / relabeling) + independent spline reference for Hirshfeld"

NOBLE = [2, 10, 18, 36, 54, 85, 86]
GEOMS = ["random", "collinear", "nearpair", "lattice", "coplanar"]
ELEMS = ["uniform", "noble-run", "extreme", "same", "light"]
TOL_SUM = 1e-12
TOL_ROUTE = 1e-13
TOL_RELABEL = 1e-13
TOL_MONO = 1e-13
RIGID_SAFETY = 32.0  # multiple of the first-order float64 error model allowed between two frames
HIRSH_ELEMS = [1, 6, 7, 8]


# ------------------------------------------------------------------ cases
def _draw_m(rng, quick=False):
    u = rng.random()
    if u < 0.03:
        return 1
    if u < 0.13:
        return 2
    if u < 0.25:
        return 3
    if u < 0.70:
        return int(rng.integers(4, 9))
    if u < (0.95 if quick else 0.92):
        return int(rng.integers(9, 17))
    if u < (0.985 if quick else 0.98):
        return int(rng.integers(17, 31))
    return int(rng.integers(31, 41))


def cases(tier, seed):
    q = tier == "quick"
    out = []
    rng = np.random.default_rng([seed, 6])
    # pinned witnesses of proposed open findings (run first in both tiers)
    out.append(("pinned-hirshfeld-far", {"mol": "CO", "z": -18.0}, 1e9))
    out.append(("pinned-hirshfeld-far", {"mol": "H2O", "z": 22.0}, 1e9))
    # seed independent grid
    k = 0
    for im, m in enumerate([1, 2, 3, 4, 5, 6, 7, 8, 9, 10, 12, 16, 20, 27, 40]):
        for ig, geom in enumerate(GEOMS if not q else GEOMS[:4]):
            for ie, elem in enumerate(["uniform", "noble-run", "extreme"]):
                if m == 1 and ig > 0:
                    continue
                if q and ((m == 40 and ie != ig % 3) or (m == 27 and ie == (ig + 1) % 3)):
                    continue  # quick: the two largest sizes with one / two element kinds per geometry
                out.append(("becke-structured", {"M": m, "geom": geom, "elem": elem, "order": 1 + (im + ig + 2 * ie) % 6}, float(m) ** 3 + 50))
                k += 1
    for k in range(800 if q else 24000):
        m = _draw_m(rng, q)
        out.append(("becke-random", {"k": k, "M": m, "geom": GEOMS[int(rng.integers(len(GEOMS)))], "elem": ELEMS[int(rng.integers(len(ELEMS)))], "order": int(rng.integers(1, 7))}, float(m) ** 3 + 50))
    for k in range(150 if q else 2500):
        m = int(rng.integers(1, 11))
        out.append(("becke-noble", {"k": k, "M": m, "geom": GEOMS[int(rng.integers(len(GEOMS)))], "elem": ["noble", "noble-run"][k % 2], "order": int(rng.integers(1, 7))}, float(m) ** 3 + 50))
    out.append(("becke-select", {"k": -1, "M": 3, "order": 3, "pinned": "select=[2,0]"}, 200.0))
    for k in range(300 if q else 5000):
        m = int(rng.integers(2, 10))
        out.append(("becke-select", {"k": k, "M": m, "order": int(rng.integers(1, 7))}, float(m) ** 3 + 40))
    for za in range(1, 87):
        for order in range(1, 7):
            if q and order > 2 and za % 9 != (order % 9):
                continue
            out.append(("becke-axis", {"zA": za, "order": order}, 120.0))
    for k in range(24 if q else 240):
        out.append(("becke-molgrid", {"k": k, "M": int(rng.integers(2, 13)), "order": int(rng.integers(1, 7))}, 900.0))
    for k in range(300 if q else 7000):
        m = int(min(_draw_m(rng), 14))
        out.append(("hirshfeld-random", {"k": k, "M": m, "geom": GEOMS[int(rng.integers(len(GEOMS)))]}, 30.0 + 6.0 * m * m))
    for k in range(12 if q else 120):
        out.append(("hirshfeld-molgrid", {"k": k, "M": int(rng.integers(1, 9))}, 600.0))
    for k in range(6 if q else 40):
        out.append(("becke-beyond-resolution", {"k": k, "M": int(rng.integers(2, 13)), "order": int(rng.integers(1, 7))}, 60.0))
    out.append(("zero-points", {}, 10.0))
    # clones of the weight objects (copy / deepcopy / pickle) and equal-but-not-identical option values
    for k in range(48 if q else 600):
        out.append(("clones-options", {"k": k, "M": 2 + k % 7, "order": [1, 2, 4, 5, 6, 3][k % 6], "clone": roundtrip.KINDS[k % len(roundtrip.KINDS)], "elem": ["light", "uniform", "noble-run"][k % 3]}, 60.0 + (2 + k % 7) ** 3))
    # same values handed over in other array forms (integer lattices, float32, strided / Fortran views, read-only)
    k = 0
    for m in ([1, 2, 3, 4, 5, 7, 9] if q else [1, 2, 3, 4, 5, 6, 7, 8, 9, 10, 12]):
        for pk, ak in (("lattice", "lattice"), ("lattice", "general"), ("general", "general"), ("general", "lattice")):
            for rep in range(2 if q else 12):
                out.append(("input-forms", {"k": k, "M": m, "order": 1 + k % 6, "points": pk, "atoms": ak, "scheme": "becke"}, 40.0 + 4.0 * m**3))
                k += 1
            for rep in range(1 if q else 4):
                if m <= 7:
                    out.append(("input-forms", {"k": k, "M": m, "order": 3, "points": pk, "atoms": ak, "scheme": "hirshfeld"}, 40.0 + m * m))
                    k += 1
    return out


def setup(ctx):
    mon.spline_self_test()
    mon.install(ctx)


# ------------------------------------------------------------------ generators
def _unit(rng, n):
    v = rng.normal(size=(n, 3))
    return v / np.linalg.norm(v, axis=1)[:, None]


def _rotation(rng):
    q, r = np.linalg.qr(rng.normal(size=(3, 3)))
    q = q * np.sign(np.diag(r))
    if np.linalg.det(q) < 0:
        q[:, 0] = -q[:, 0]
    return q


def make_atoms(rng, m, geom):
    """m distinct positions, smallest distance >= 0.05 bohr (None if the generator failed)."""
    for _ in range(60):
        size = 1.6 * max(1.0, m ** (1.0 / 3.0)) * float(rng.uniform(0.6, 2.0))
        if geom == "collinear":
            d = _unit(rng, 1)[0] if rng.random() < 0.7 else np.eye(3)[int(rng.integers(3))]
            steps = rng.uniform(0.05, 3.5, m)
            if rng.random() < 0.3:
                steps[:] = float(rng.uniform(0.5, 3.0))  # equidistant chain
            pos = (np.cumsum(steps) - steps[0])[:, None] * d[None, :] + rng.normal(size=3) * 3
        elif geom == "lattice":
            n = int(np.ceil(m ** (1.0 / 3.0)))
            g = np.array([(i, j, k) for i in range(n) for j in range(n) for k in range(n)], dtype=float)
            g = g[rng.permutation(len(g))[:m]]
            pos = g * float(rng.uniform(0.7, 3.0))
            if rng.random() < 0.5:
                pos = pos @ _rotation(rng).T + rng.normal(size=3)
        elif geom == "coplanar":
            pos = np.zeros((m, 3))
            pos[:, :2] = rng.uniform(-size, size, size=(m, 2))
            pos = pos @ _rotation(rng).T + rng.normal(size=3)
        else:
            pos = rng.uniform(-size, size, size=(m, 3))
        if geom == "nearpair" and m >= 2:
            npair = int(rng.integers(1, max(2, m // 2 + 1)))
            for _p in range(npair):
                i, j = rng.choice(m, 2, replace=False)
                pos[i] = pos[j] + _unit(rng, 1)[0] * float(rng.choice([0.05, 0.0500001, 0.07, 0.1, 0.2, 0.35]))
        if mon.min_atom_distance(pos) >= 0.05 * (1 - 1e-9):
            return np.ascontiguousarray(pos, dtype=float)
    return None


def make_elements(rng, m, kind):
    if kind == "noble":
        z = rng.choice(NOBLE, m)
    elif kind == "noble-run":
        z = rng.integers(1, 87, m)
        a = int(rng.integers(0, m))
        b = int(rng.integers(a, m)) + 1
        z[a:b] = rng.choice(NOBLE, b - a)
        if rng.random() < 0.3:
            z[a:b] = [85, 86][int(rng.integers(2))]  # run of one element without radius
    elif kind == "extreme":
        z = rng.choice([1, 2, 9, 55, 56, 19, 37, 86, 8, 3], m)
    elif kind == "same":
        z = np.full(m, int(rng.integers(1, 87)))
    elif kind == "light":
        z = rng.choice([1, 6, 7, 8, 9, 15, 16, 17], m)
    else:
        z = rng.integers(1, 87, m)
    return np.asarray(z, dtype=np.int64)


def make_points(rng, at, budget, far_max=1e12):
    """Point classes: nuclei, nuclei+1e-9, bisector planes, near, shells 1e-3 .. far_max."""
    m = len(at)
    pts, cls = [], []
    centre = at.mean(axis=0)
    n_nuc = m if m <= 12 else 12
    sel = rng.permutation(m)[:n_nuc]
    pts.append(at[sel].copy())
    cls += ["nucleus"] * n_nuc
    n_eps = min(m, 6)
    sel = rng.permutation(m)[:n_eps]
    pts.append(at[sel] + 1e-9 * _unit(rng, n_eps))
    cls += ["nucleus+1e-9"] * n_eps
    if m >= 2:
        nb = 6
        for _ in range(nb):
            i, j = rng.choice(m, 2, replace=False)
            mid = 0.5 * (at[i] + at[j])
            d = at[j] - at[i]
            u = np.cross(d, _unit(rng, 1)[0])
            nu = np.linalg.norm(u)
            u = u / nu if nu > 0 else np.zeros(3)
            pts.append((mid + u * float(rng.choice([0.0, 1e-6, 0.3, 2.0, 30.0])))[None, :])
            cls.append("bisector")
    n_near = max(4, budget - sum(len(p) for p in pts) - 14)
    n_near = min(n_near, 16)
    sel = rng.integers(0, m, n_near)
    pts.append(at[sel] + _unit(rng, n_near) * (10.0 ** rng.uniform(-3, 0.7, n_near))[:, None])
    cls += ["near"] * n_near
    decades = [1e-3, 1e-1, 1e1, 1e3, 1e4, 1e6, 1e8]
    if far_max >= 1e12:
        decades += [1e10, 1e12]
    radii = np.array(decades + list(10.0 ** rng.uniform(-3, 8, 4)))
    origin = np.where(rng.random(len(radii))[:, None] < 0.5, centre[None, :], at[rng.integers(0, m, len(radii))])
    pts.append(origin + _unit(rng, len(radii)) * radii[:, None])
    cls += ["shell"] * len(radii)
    p = np.ascontiguousarray(np.concatenate(pts, axis=0), dtype=float)
    perm = rng.permutation(len(p))
    return p[perm], [cls[i] for i in perm]


def random_segments(rng, n, m):
    """Non-decreasing segment table of m+1 entries from 0 to n with (often) empty segments."""
    cuts = np.sort(rng.integers(0, n + 1, m - 1)) if m > 1 else np.array([], dtype=int)
    if m > 2 and rng.random() < 0.5:
        k = int(rng.integers(0, m - 2))
        cuts[k + 1] = cuts[k]  # force one empty segment
        cuts = np.sort(cuts)
    return np.concatenate([[0], cuts, [n]]).astype(int)


def custom_radii(rng, atnums):
    if rng.random() > 0.15:
        return None
    zs = np.unique(atnums)
    pick = rng.choice(zs, size=int(rng.integers(1, len(zs) + 1)), replace=False)
    return {int(z): float(10.0 ** rng.uniform(-0.5, 0.7)) for z in pick}


# ------------------------------------------------------------------ routes of the real API
_ID = (lambda x: x, lambda x: x, lambda x: x)  # (points form, atcoords form, atnums form): identity


def matrix_by_call(bw, pts, at, nums, form=_ID):
    """atoms x points matrix through the chunked whole-grid entry point (tiled point set, one segment per atom)."""
    m, n = len(at), len(pts)
    fp, fa, fn = form
    mon.reset_run()
    w = bw(fp(np.tile(pts, (m, 1))), fa(at), fn(nums), np.arange(m + 1) * n)
    return w.reshape(m, n), mon.STATE["last_call_chunks"]


def _blocks(m, n, cap=1.5e6):
    per = max(1, int(cap // max(1, n * m * m)))
    return [(a, min(m, a + per)) for a in range(0, m, per)]


def matrix_by_generate(bw, pts, at, nums, variant=0, form=_ID):
    m, n = len(at), len(pts)
    fp, fa, fn = form
    out = np.zeros((m, n))
    for a, b in _blocks(m, n):
        if b - a == 1:
            sel = a if variant % 2 == 0 else np.int64(a)
            out[a] = bw.generate_weights(fp(pts), fa(at), fn(nums), select=sel)
        else:
            sel = list(range(a, b)) if variant % 2 == 0 else np.arange(a, b)
            out[a:b] = bw.generate_weights(fp(np.tile(pts, (b - a, 1))), fa(at), fn(nums), select=sel, pt_ind=list(np.arange(b - a + 1) * n)).reshape(b - a, n)
    mon.reset_run()
    return out


def matrix_by_compute_weights(bw, pts, at, nums, variant=0, form=_ID):
    m, n = len(at), len(pts)
    fp, fa, fn = form
    out = np.zeros((m, n))
    for a, b in _blocks(m, n, cap=6e6):
        if b - a == 1:
            out[a] = bw.compute_weights(fp(pts), fa(at), fn(nums), select=a)
        else:
            sel = list(range(a, b)) if variant % 2 else np.arange(a, b)
            out[a:b] = bw.compute_weights(fp(np.tile(pts, (b - a, 1))), fa(at), fn(nums), select=sel, pt_ind=np.arange(b - a + 1) * n).reshape(b - a, n)
    return out


def matrix_by_atom(bw, pts, at, nums, form=_ID):
    fp, fa, fn = form
    return np.array([bw.compute_atom_weight(fp(pts), fa(at), fn(nums), i) for i in range(len(at))])


def _sum_check(ctx, subject, w, pts, extra):
    s = w.sum(axis=0)
    dev = np.abs(s - 1.0)
    k = int(np.argmax(np.where(np.isnan(dev), np.inf, dev)))
    ctx.check("sum-to-one", subject, float(dev[k]) if np.isfinite(dev[k]) else float("nan"), TOL_SUM, sig="sum!=1" if np.isfinite(dev[k]) else "sum-nan", detail={"point": pts[k], "sum": s[k], **extra})


def _agree(ctx, subject, w1, w2, tol, extra, sig="differ"):
    if w1.shape != w2.shape:
        ctx.check("routes-agree", subject, False, sig="shape", detail={"shapes": [list(w1.shape), list(w2.shape)], **extra})
        return
    d = np.abs(w1 - w2)
    d = np.where(np.isnan(d), np.inf, d)
    if d.size == 0:
        return
    k = np.unravel_index(int(np.argmax(d)), d.shape)
    ctx.check("routes-agree", subject, float(d[k]), tol, sig=sig, detail={"index": list(map(int, k)), "a": float(w1[k]), "b": float(w2[k]), **extra})


# ------------------------------------------------------------------ Becke group case
def becke_case(ctx, params, family):
    from grid.becke import BeckeWeights

    rng = ctx.rng
    m, order = int(params["M"]), int(params["order"])
    at = make_atoms(rng, m, params["geom"])
    if at is None:
        ctx.discard("generator could not place atoms 0.05 bohr apart")
        return
    nums = make_elements(rng, m, params["elem"])
    radii = custom_radii(rng, nums)
    budget = 46 if m <= 12 else (40 if m <= 27 else 34)
    pts, cls = make_points(rng, at, budget)
    n = len(pts)
    extra = {"M": m, "order": order, "atnums": nums[:10], "dmin": mon.min_atom_distance(at)}
    ctx.count("becke-cases:M=" + ("1" if m == 1 else "2-3" if m < 4 else "4-8" if m < 9 else "9-16" if m < 17 else "17-40"))
    ctx.count("becke-cases:order=%d" % order)
    if np.isin(nums, NOBLE).any():
        ctx.count("becke-cases:with-NaN-radius-element")
    if radii is not None:
        ctx.count("becke-cases:custom-radii")
    with ctx.guard("no-exception", "BeckeWeights.__init__"):
        bw = BeckeWeights(radii=radii, order=order)
    variant = int(rng.integers(0, 4))

    wc = wg = wa = ww = None
    with ctx.guard("no-exception", "BeckeWeights.__call__"):
        wc, chunks = matrix_by_call(bw, pts, at, nums)
        ctx.case_note("chunks_in_tiled_call", chunks)
        ctx.case_note("natom", m)
    with ctx.guard("no-exception", "BeckeWeights.generate_weights"):
        wg = matrix_by_generate(bw, pts, at, nums, variant)
    with ctx.guard("no-exception", "BeckeWeights.compute_atom_weight"):
        wa = matrix_by_atom(bw, pts, at, nums)
    with ctx.guard("no-exception", "BeckeWeights.compute_weights"):
        ww = matrix_by_compute_weights(bw, pts, at, nums, variant)
    routes = {"BeckeWeights.__call__": wc, "BeckeWeights.generate_weights": wg, "BeckeWeights.compute_atom_weight": wa, "BeckeWeights.compute_weights": ww}
    for name, w in routes.items():
        if w is not None:
            _sum_check(ctx, name, w, pts, extra)
    if wc is not None and wg is not None:
        _agree(ctx, "__call__(chunked) vs generate_weights", wc, wg, TOL_ROUTE, {**extra, "chunks": chunks})
    if wg is not None and wa is not None:
        _agree(ctx, "generate_weights vs compute_atom_weight", wg, wa, TOL_ROUTE, extra)
    if ww is not None and wa is not None:
        _agree(ctx, "compute_weights vs compute_atom_weight", ww, wa, TOL_ROUTE, extra)
    ref = wa if wa is not None else wg
    if ref is None:
        return

    # segment-wise whole-grid call with a random segment table (empty segments, chunk borders inside segments)
    idx = random_segments(rng, n, m)
    own = mon.owners_from_indices(n, idx)
    want = ref[own, np.arange(n)]
    with ctx.guard("no-exception", "BeckeWeights.__call__"):
        mon.reset_run()
        got = bw(pts, at, nums, idx)
        _agree(ctx, "__call__(random segments) vs per-atom", got, want, TOL_ROUTE, {**extra, "indices": idx[:14], "chunks": mon.STATE["last_call_chunks"]})
    with ctx.guard("no-exception", "BeckeWeights.generate_weights"):
        got = bw.generate_weights(pts, at, nums, pt_ind=idx if variant % 2 else list(idx))
        mon.reset_run()
        _agree(ctx, "generate_weights(pt_ind) vs per-atom", got, want, TOL_ROUTE, extra)
    with ctx.guard("no-exception", "BeckeWeights.compute_weights"):
        got = bw.compute_weights(pts, at, nums, pt_ind=idx)
        _agree(ctx, "compute_weights(pt_ind) vs per-atom", got, want, TOL_ROUTE, extra)
    # per-atom whole-grid call (all points belong to one atom; many empty segments, smallest chunks)
    for i in rng.permutation(m)[: 2 if m > 1 else 1]:
        i = int(i)
        with ctx.guard("no-exception", "BeckeWeights.__call__"):
            mon.reset_run()
            got = bw(pts, at, nums, np.array([0] * (i + 1) + [n] * (m - i)))
            _agree(ctx, "__call__(one atom owns all) vs per-atom", got, ref[i], TOL_ROUTE, {**extra, "atom": i, "chunks": mon.STATE["last_call_chunks"]})
    # non-identity select with explicit segment table
    select_variants(ctx, bw, pts, at, nums, ref, extra, nvar=2)

    # relabeling: permuting the atoms permutes the outputs
    if m >= 2:
        perm = rng.permutation(m)
        with ctx.guard("no-exception", "BeckeWeights.__call__"):
            wp, _ = matrix_by_call(bw, pts, at[perm], nums[perm])
            d = np.abs(wp - wc[perm]) if wc is not None else np.abs(wp - ref[perm])
            k = np.unravel_index(int(np.argmax(np.where(np.isnan(d), np.inf, d))), d.shape)
            ctx.check("relabel-equivariant", "BeckeWeights.__call__", float(d[k]), TOL_RELABEL, sig="permuted-output-differs", detail={"index": list(map(int, k)), **extra})
    # rigid motion of atoms and points together
    rot = _rotation(rng)
    shift = _unit(rng, 1)[0] * float(10.0 ** rng.uniform(-2, 2))
    at2 = at @ rot.T + shift
    pts2 = pts @ rot.T + shift
    base = wc if wc is not None else ref
    with ctx.guard("no-exception", "BeckeWeights.__call__"):
        if variant % 2:
            w2, _ = matrix_by_call(bw, pts2, at2, nums)
        else:
            w2 = matrix_by_generate(bw, pts2, at2, nums)
        coord = np.maximum(np.abs(pts).max(axis=1), np.abs(pts2).max(axis=1)) + max(np.abs(at).max(), np.abs(at2).max())
        err = forward_error_bound(at, pts, nums, radii, order, coord)  # (M, N) first-order float64 error of one evaluation
        if err is None:
            ctx.count("rigid-motion:cases-without-error-model")
            return
        bound = 1e-13 + 2.0 * RIGID_SAFETY * err
        decided = bound < 1e-6
        ctx.count("rigid-motion:values-decided", int(decided.sum()))
        ctx.count("rigid-motion:values-too-ill-conditioned", int((~decided).sum()))
        if decided.any():
            diff = np.abs(w2 - base)
            ratio = np.where(decided, diff / bound, 0.0)
            ratio = np.where(np.isnan(ratio), np.inf, ratio)
            k = np.unravel_index(int(np.argmax(ratio)), ratio.shape)
            ctx.check("rigid-motion-invariant", "BeckeWeights", float(ratio[k]), 1.0, sig="changed-under-rotation+translation", detail={"abs_diff": float(diff[k]), "bound": float(bound[k]), "point": pts[k[1]], "atom": int(k[0]), **extra})


def effective_radii(nums, radii):
    """Radii the weights are documented to use: Bragg radii, user overrides, previous element(s) where undefined."""
    from grid.utils import get_cov_radii

    table = {i + 1: float(r) for i, r in enumerate(get_cov_radii(np.arange(1, 87), "bragg"))}
    if radii:
        table.update(radii)
    out = []
    for z in nums:
        z = int(z)
        r = table[z]
        if np.isnan(r):
            r = table.get(z - 1, np.nan)
            if np.isnan(r) or r == 0:
                r = table.get(z - 2, np.nan)
        out.append(r)
    out = np.array(out, dtype=float)
    return out if np.all(np.isfinite(out)) and np.all(out > 0) else None


def forward_error_bound(at, pts, nums, radii, order, coord):
    """First-order forward error of evaluating w_A = P_A / sum_C P_C, P_A = prod_B s(v_AB), in float64.

    Used ONLY as the conditioning floor of the rigid-motion comparison (never as the expected value): the cell
    functions s = (1 - f^k(v))/2 lose relative accuracy eps/s by cancellation when s is tiny, and the distances carry an
    absolute error of a few eps x |coordinates|.  Returns (M, N) absolute error estimates, or None without a radius model.
    """
    m, n = len(at), len(pts)
    rad = effective_radii(nums, radii)
    if rad is None:
        return None
    eps = np.finfo(float).eps
    if m == 1:
        return np.full((1, n), eps)
    rp = np.linalg.norm(pts[:, None, :] - at[None, :, :], axis=-1)  # (N, M)
    rab = np.linalg.norm(at[:, None, :] - at[None, :, :], axis=-1)
    off = ~np.eye(m, dtype=bool)
    rab_safe = np.where(off, rab, 1.0)
    mu = (rp[:, :, None] - rp[:, None, :]) / rab_safe[None]
    u = (rad[:, None] - rad[None, :]) / (rad[:, None] + rad[None, :])
    with np.errstate(all="ignore"):
        alpha = np.clip(np.where(np.abs(u) < 1, u / (u * u - 1), 0.0), -0.45, 0.45)
    v = mu + alpha[None] * (1 - mu * mu)
    dv = (1 + 2 * np.abs(alpha[None] * mu)) * 8.0 * eps * coord[:, None, None] / rab_safe[None] + 4 * eps * (1 + np.abs(v))
    x = v
    d = np.ones_like(v)
    for _ in range(order):
        d = d * 1.5 * np.abs(1 - x * x) + 4 * eps * (1 + np.abs(x) ** 3)  # error propagated through one more iterate
        x = 1.5 * x - 0.5 * x**3
    sab = 0.5 * (1 - x)
    dsab = 0.5 * (d * dv + 2 * eps * (1 + np.abs(x)))
    sab = np.where(off[None], sab, 1.0)
    dsab = np.where(off[None], dsab, 0.0)
    # leave-one-out products along B via prefix/suffix products
    pre = np.ones((n, m, m + 1))
    suf = np.ones((n, m, m + 1))
    for j in range(m):
        pre[:, :, j + 1] = pre[:, :, j] * sab[:, :, j]
        suf[:, :, m - 1 - j] = suf[:, :, m - j] * sab[:, :, m - 1 - j]
    prod = pre[:, :, m]  # (N, M) P_A
    loo = pre[:, :, :m] * suf[:, :, 1:]  # (N, M, M) prod over B' != B
    dprod = (dsab * np.abs(loo)).sum(axis=-1) + m * eps * np.abs(prod)
    tot = prod.sum(axis=1)
    with np.errstate(all="ignore"):
        w = prod / tot[:, None]
        err = (dprod + np.abs(w) * dprod.sum(axis=1)[:, None]) / np.abs(tot)[:, None] + 4 * eps
    err = np.where(np.isfinite(err), err, np.inf)
    return err.T


def select_variants(ctx, bw, pts, at, nums, ref, extra, nvar=2, pinned=None):
    """generate_weights / compute_weights with a non-identity select list and an explicit segment table."""
    rng = ctx.rng
    m, n = len(at), len(pts)
    for v in range(nvar):
        if pinned is not None and v == 0:
            sel = list(pinned)
        else:
            kind = int(rng.integers(0, 4))
            if kind == 0:
                sel = list(map(int, rng.permutation(m)[: int(rng.integers(1, m + 1))]))  # subset in random order
            elif kind == 1:
                sel = list(map(int, rng.integers(0, m, int(rng.integers(1, m + 3)))))  # repeats allowed, may be longer than M
            elif kind == 2:
                sel = list(map(int, np.arange(m)[::-1]))  # reversed
            else:
                sel = list(map(int, np.roll(np.arange(m), int(rng.integers(1, max(2, m))))))
        pt = random_segments(rng, n, len(sel))
        own = mon.owners_from_select(m, n, sel, pt)
        want = ref[own, np.arange(n)]
        det = {**extra, "select": sel[:12], "pt_ind": pt[:13]}
        ctx.count("select-tables:non-identity" if sel != list(range(m)) else "select-tables:identity")
        sel_arg = sel if v % 2 == 0 else np.array(sel)
        with ctx.guard("routes-agree", "generate_weights(select,pt_ind) vs per-atom"):
            got = bw.generate_weights(pts, at, nums, select=sel_arg, pt_ind=pt)
            mon.reset_run()
            _agree(ctx, "generate_weights(select,pt_ind) vs per-atom", got, want, TOL_ROUTE, det)
        with ctx.guard("routes-agree", "compute_weights(select,pt_ind) vs per-atom"):
            got = bw.compute_weights(pts, at, nums, select=sel_arg, pt_ind=pt)
            _agree(ctx, "compute_weights(select,pt_ind) vs per-atom", got, want, TOL_ROUTE, det)


def select_case(ctx, params):
    from grid.becke import BeckeWeights

    rng = ctx.rng
    m, order = int(params["M"]), int(params["order"])
    at = make_atoms(rng, m, GEOMS[int(rng.integers(len(GEOMS)))])
    if at is None:
        ctx.discard("generator could not place atoms 0.05 bohr apart")
        return
    nums = make_elements(rng, m, ELEMS[int(rng.integers(len(ELEMS)))])
    pts, _ = make_points(rng, at, 40, far_max=1e8)
    bw = BeckeWeights(order=order)
    extra = {"M": m, "order": order, "atnums": nums[:10]}
    with ctx.guard("no-exception", "BeckeWeights.compute_atom_weight"):
        ref = matrix_by_atom(bw, pts, at, nums)
    _sum_check(ctx, "BeckeWeights.compute_atom_weight", ref, pts, extra)
    select_variants(ctx, bw, pts, at, nums, ref, extra, nvar=6, pinned=[2, 0] if params.get("pinned") else None)


# ------------------------------------------------------------------ diatomic axis
def axis_case(ctx, params):
    from grid.becke import BeckeWeights

    rng = ctx.rng
    za, order = int(params["zA"]), int(params["order"])
    bw = BeckeWeights(order=order)
    t = np.concatenate([np.linspace(0.0, 1.0, 601 if ctx.tier == "quick" else 1201), [0.5 - 1e-9, 0.5 + 1e-9]])
    t.sort()
    worst = 0.0
    for zb in range(1, 87):
        dist = float(rng.choice([0.05, 0.7, 1.4, 2.8, 6.0, 25.0]))
        d = _unit(rng, 1)[0]
        a0 = rng.normal(size=3)
        at = np.array([a0, a0 + dist * d])
        at[1] = at[0] + dist * d
        pts = at[0][None, :] + t[:, None] * (at[1] - at[0])[None, :]
        pts[0], pts[-1] = at[0], at[1]
        nums = np.array([za, zb], dtype=np.int64)
        with ctx.guard("no-exception", "BeckeWeights.generate_weights"):
            wa = bw.generate_weights(pts, at, nums, select=0)
            wb = bw.generate_weights(pts, at, nums, select=1)
            mon.reset_run()
            inc = float(np.max(np.diff(wa)))
            worst = max(worst, inc)
            k = int(np.argmax(np.diff(wa)))
            ctx.check("cell-monotone", "BeckeWeights.generate_weights", max(inc, 0.0), TOL_MONO, sig="weight-of-A-increases-towards-B", detail={"zA": za, "zB": zb, "order": order, "t": float(t[k]), "w": [float(wa[k]), float(wa[k + 1])], "R": dist})
            _sum_check(ctx, "BeckeWeights.generate_weights", np.array([wa, wb]), pts, {"zA": za, "zB": zb, "order": order})
    ctx.case_note("largest_increase", worst)


# ------------------------------------------------------------------ MolGrid end to end
def _atgrids(rng, at, rmax):
    from grid.atomgrid import AtomGrid
    from grid.basegrid import OneDGrid

    out = []
    for c in at:
        nr = int(rng.integers(5, 12))
        r = np.geomspace(float(rng.uniform(0.005, 0.05)), rmax * float(rng.uniform(0.5, 1.0)), nr)
        rg = OneDGrid(r, np.gradient(r), (0, np.inf))
        out.append(AtomGrid(rg, degrees=[int(rng.choice([3, 5, 7]))], center=c))
    return out


def molgrid_case(ctx, params, scheme):
    from grid.becke import BeckeWeights
    from grid.hirshfeld import HirshfeldWeights
    from grid.molgrid import MolGrid

    rng = ctx.rng
    m = int(params["M"])
    at = make_atoms(rng, m, "random" if rng.random() < 0.7 else "nearpair")
    if at is None:
        ctx.discard("generator could not place atoms 0.05 bohr apart")
        return
    if scheme == "becke":
        nums = make_elements(rng, m, ELEMS[int(rng.integers(len(ELEMS)))])
        aim = BeckeWeights(order=int(params["order"]))
    else:
        nums = np.asarray(rng.choice(HIRSH_ELEMS, m), dtype=np.int64)
        aim = HirshfeldWeights()
    grids = _atgrids(rng, at, 12.0 if scheme == "becke" else 9.0)
    with ctx.guard("no-exception", f"MolGrid({type(aim).__name__})"):
        mon.reset_run()
        mg = MolGrid(nums, grids, aim, store=False)
        w = np.array(mg.aim_weights)
        pts = np.array(mg.points)
        idx = np.array(mg.indices)
        ctx.case_note("npoints", len(pts))
        own = mon.owners_from_indices(len(pts), idx)
        extra = {"M": m, "atnums": nums[:10]}
        if scheme == "becke":
            ctx.case_note("chunks", mon.STATE["last_call_chunks"])
            ref = matrix_by_atom(aim, pts, at, nums)
            _sum_check(ctx, "BeckeWeights.compute_atom_weight", ref, pts, extra)
            _agree(ctx, "MolGrid.aim_weights vs compute_atom_weight", w, ref[own, np.arange(len(pts))], TOL_ROUTE, {**extra, "chunks": mon.STATE["last_call_chunks"]})
        else:
            mat = hirshfeld_matrix(ctx, aim, pts, at, nums)
            if mat is not None:
                _agree(ctx, "MolGrid.aim_weights(Hirshfeld) vs per-atom call", w, mat[own, np.arange(len(pts))], TOL_ROUTE, extra)


# ------------------------------------------------------------------ Hirshfeld
def hirshfeld_matrix(ctx, hw, pts, at, nums):
    m, n = len(at), len(pts)
    mat = None
    with ctx.guard("no-exception", "HirshfeldWeights.__call__"):
        mat = np.array([hw(pts, at, nums, np.array([0] * (i + 1) + [n] * (m - i))) for i in range(m)])
        s = mat.sum(axis=0)
        scale = np.maximum(1.0, np.abs(mat).sum(axis=0))
        dev = np.abs(s - 1.0) / scale
        dev = np.where(np.isnan(dev), np.inf, dev)
        k = int(np.argmax(dev))
        far = bool(np.linalg.norm(at - pts[k], axis=1).max() > mon.HIRSH_FAR)
        ctx.check("hirshfeld-sum-to-one", "HirshfeldWeights.__call__", float(dev[k]), TOL_SUM, sig="sum!=1:" + ("far" if far else "near"), detail={"point": pts[k], "sum": s[k], "sum_abs": scale[k], "atnums": nums[:10]})
    return mat


def hirshfeld_case(ctx, params):
    from grid.hirshfeld import HirshfeldWeights

    rng = ctx.rng
    m = int(params["M"])
    at = make_atoms(rng, m, params["geom"])
    if at is None:
        ctx.discard("generator could not place atoms 0.05 bohr apart")
        return
    nums = np.asarray(rng.choice(HIRSH_ELEMS, m), dtype=np.int64)
    pts, cls = make_points(rng, at, 60, far_max=1e8)
    # more points in the chemically relevant range and at the edge of the tables
    extra_r = np.concatenate([rng.uniform(0.0, 8.0, 12), rng.uniform(8.0, 16.0, 6), rng.uniform(16.0, 130.0, 4)])
    pts = np.concatenate([pts, at[rng.integers(0, m, len(extra_r))] + _unit(rng, len(extra_r)) * extra_r[:, None]])
    hw = HirshfeldWeights()
    mat = hirshfeld_matrix(ctx, hw, pts, at, nums)
    if mat is None:
        return
    n = len(pts)
    idx = random_segments(rng, n, m)
    own = mon.owners_from_indices(n, idx)
    with ctx.guard("no-exception", "HirshfeldWeights.__call__"):
        got = hw(pts, at, nums, idx)
        _agree(ctx, "Hirshfeld __call__(random segments) vs per-atom call", got, mat[own, np.arange(n)], TOL_ROUTE, {"M": m, "atnums": nums[:10], "indices": idx[:14]})


def pinned_hirshfeld(ctx, params):
    from grid.hirshfeld import HirshfeldWeights

    if params["mol"] == "CO":
        at = np.array([[0.0, 0.0, 0.0], [0.0, 0.0, 2.1]])
        nums = np.array([6, 8], dtype=np.int64)
    else:
        at = np.array([[0.0, 0.0, 0.0], [0.0, 1.43, 1.1], [0.0, -1.43, 1.1]])
        nums = np.array([8, 1, 1], dtype=np.int64)
    pts = np.array([[0.0, 0.0, float(params["z"])], [0.3, 0.2, 0.5]])
    mat = hirshfeld_matrix(ctx, HirshfeldWeights(), pts, at, nums)
    if mat is not None:
        ctx.case_note("weights_at_far_point", mat[:, 0])


# ------------------------------------------------------------------ observed, not decided
def beyond_resolution_case(ctx, params):
    from grid.becke import BeckeWeights

    rng = ctx.rng
    m, order = int(params["M"]), int(params["order"])
    at = make_atoms(rng, m, "nearpair")
    if at is None:
        ctx.discard("generator could not place atoms")
        return
    nums = make_elements(rng, m, "uniform")
    radii = np.array([1e14, 1e15, 1e16, 1e18, 1e30, 1e150, 1e300])
    pts = _unit(rng, len(radii)) * radii[:, None]
    bw = BeckeWeights(order=order)
    with ctx.guard("no-exception", "BeckeWeights.generate_weights"):
        w = matrix_by_generate(bw, pts, at, nums)
        bad = (~np.isfinite(w)).any(axis=0) | (w.min(axis=0) < -1e-12) | (w.max(axis=0) > 1 + 1e-12) | (np.abs(w.sum(axis=0) - 1) > 1e-12)
        ctx.count("beyond-resolution:points", len(radii))
        ctx.count("beyond-resolution:points-with-weights-outside-[0,1]", int(bad.sum()))
        if bad.any():
            k = int(np.argmax(bad))
            ctx.observe(
                "Becke weights outside [0,1] at points whose float spacing exceeds the internuclear distances (not decided)",
                radius=float(radii[k]),
                min_w=float(np.nanmin(w[:, k])),
                max_w=float(np.nanmax(w[:, k])),
                sum=float(w[:, k].sum()),
                natom=m,
                order=order,
                dmin=mon.min_atom_distance(at),
            )
    ctx.trivial()


def zero_points_case(ctx, params):
    from grid.becke import BeckeWeights

    at = np.array([[0.0, 0.0, 0.0], [0.0, 0.0, 1.4], [1.0, 0.0, 0.0]])
    nums = np.array([8, 1, 1], dtype=np.int64)
    bw = BeckeWeights()
    empty = np.zeros((0, 3))
    res = {}
    for name, fn in (
        ("__call__", lambda: bw(empty, at, nums, np.array([0, 0, 0, 0]))),
        ("generate_weights", lambda: bw.generate_weights(empty, at, nums, pt_ind=[0, 0, 0, 0])),
        ("compute_weights", lambda: bw.compute_weights(empty, at, nums, pt_ind=[0, 0, 0, 0])),
    ):
        try:
            r = fn()
            res[name] = f"returned shape {np.shape(r)}"
        except Exception as exc:  # noqa: BLE001
            res[name] = f"raised {type(exc).__name__}: {exc}"[:120]
    mon.reset_run()
    if len(set(v.split(":")[0] for v in res.values())) > 1:
        ctx.observe("empty point set: the evaluation routes do not behave alike (not decided: a grid without points is outside the stated domain)", **res)
    ctx.trivial()


# ------------------------------------------------------------------ input forms of the documented array arguments
def _rows_view(x):
    big = np.full((2 * len(x) + 1,) + x.shape[1:], 7, dtype=x.dtype)
    big[1::2] = x
    return big[1::2]


def _cols_view(x):
    if x.ndim == 1:
        return _rows_view(x)
    big = np.full((len(x), 2 * x.shape[1]), 7, dtype=x.dtype)
    big[:, ::2] = x
    return big[:, ::2]


def _readonly(x):
    y = np.array(x)
    y.setflags(write=False)
    return y


_F64 = lambda x: x  # noqa: E731
# name -> (points form, atcoords form, atnums form, needs integral coordinates of (points, atoms), all-single-precision)
FORMS = {
    "points-int64": (lambda x: x.astype(np.int64), _F64, _F64, (True, False), False),
    "points-int32": (lambda x: x.astype(np.int32), _F64, _F64, (True, False), False),
    "points+atcoords-int64": (lambda x: x.astype(np.int64), lambda x: x.astype(np.int64), _F64, (True, True), False),
    "atcoords-int64": (_F64, lambda x: x.astype(np.int64), _F64, (False, True), False),
    "points-float32": (lambda x: x.astype(np.float32), _F64, _F64, (False, False), True),
    "atcoords-float32": (_F64, lambda x: x.astype(np.float32), _F64, (False, False), True),
    "points+atcoords-float32": (lambda x: x.astype(np.float32), lambda x: x.astype(np.float32), _F64, (False, False), True),
    "points-strided-rows": (_rows_view, _F64, _F64, (False, False), False),
    "points-strided-columns": (_cols_view, _F64, _F64, (False, False), False),
    "points-fortran": (np.asfortranarray, _F64, _F64, (False, False), False),
    "atcoords-strided+fortran": (_F64, lambda x: np.asfortranarray(_cols_view(x)), _rows_view, (False, False), False),
    "all-readonly": (_readonly, _readonly, _readonly, (False, False), False),
    "atnums-int32": (_F64, _F64, lambda x: x.astype(np.int32), (False, False), False),
    "atnums-float64": (_F64, _F64, lambda x: x.astype(np.float64), (False, False), False),
    "points-int64-strided": (lambda x: _rows_view(x.astype(np.int64)), _F64, lambda x: x.astype(np.int32), (True, False), False),
}
TOL_FORM = 1e-13


def forms_case(ctx, params):
    """Same VALUES handed over as integer / float32 / strided / Fortran-ordered / read-only arrays: every route must
    return what it returns for the float64 C-contiguous copy (the values are chosen representable in the narrower type)."""
    from grid.becke import BeckeWeights
    from grid.hirshfeld import HirshfeldWeights

    rng = ctx.rng
    m, order = int(params["M"]), int(params["order"])
    lattice_pts = params["points"] == "lattice"
    lattice_at = params["atoms"] == "lattice"
    # atoms
    if lattice_at:
        side = int(np.ceil(m ** (1.0 / 3.0))) + 1
        g = np.array([(i, j, k) for i in range(side) for j in range(side) for k in range(side)], dtype=float)
        at = g[rng.permutation(len(g))[:m]] * float(rng.integers(1, 4)) - float(rng.integers(0, 3))
    else:
        at = make_atoms(rng, m, "random" if rng.random() < 0.7 else "collinear")
        if at is None:
            ctx.discard("generator could not place atoms")
            return
        at = at.astype(np.float32).astype(np.float64)  # representable in single precision
        if mon.min_atom_distance(at) < 0.05:
            ctx.discard("atoms too close after rounding to float32")
            return
    # points
    if lattice_pts:
        lo = np.floor(at.min(axis=0)).astype(int) - int(rng.integers(0, 3))
        hi = np.ceil(at.max(axis=0)).astype(int) + int(rng.integers(1, 4))
        gx, gy, gz = np.mgrid[lo[0] : hi[0] + 1, lo[1] : hi[1] + 1, lo[2] : hi[2] + 1]
        lat = np.stack([gx.ravel(), gy.ravel(), gz.ravel()], axis=1).astype(float)
        pts = lat[rng.permutation(len(lat))[: int(rng.integers(24, 49))]]
        far = np.round(_unit(rng, 4) * np.array([30.0, 1e3, 1e5, 1e8])[:, None]).astype(np.float32).astype(np.float64)  # integers representable in float32
        pts = np.concatenate([pts, far])
    else:
        pts, _ = make_points(rng, at, 36, far_max=1e4)
        pts = pts.astype(np.float32).astype(np.float64)
    if lattice_at or not lattice_pts:
        pts = np.concatenate([at[rng.permutation(m)[: min(m, 6)]], pts])  # exact nuclei among the points
    pts = np.ascontiguousarray(pts)
    n = len(pts)
    scheme = params["scheme"]
    extra = {"M": m, "order": order, "points": params["points"], "atoms": params["atoms"]}
    names = [k for k, f in FORMS.items() if (not f[3][0] or lattice_pts) and (not f[3][1] or lattice_at)]
    if scheme == "becke":
        nums = make_elements(rng, m, ELEMS[int(rng.integers(len(ELEMS)))])
        bw = BeckeWeights(order=order)
        routes = {
            "__call__": lambda form: matrix_by_call(bw, pts, at, nums, form)[0],
            "generate_weights": lambda form: matrix_by_generate(bw, pts, at, nums, 0, form),
            "compute_weights": lambda form: matrix_by_compute_weights(bw, pts, at, nums, 1, form),
            "compute_atom_weight": lambda form: matrix_by_atom(bw, pts, at, nums, form),
        }
        base = {}
        for rname, fn in routes.items():
            with ctx.guard("no-exception", "BeckeWeights." + rname):
                base[rname] = fn(_ID)
                _sum_check(ctx, "BeckeWeights." + rname, base[rname], pts, extra)
        if len(base) < 4:
            return
        _agree(ctx, "__call__(chunked) vs generate_weights", base["__call__"], base["generate_weights"], TOL_ROUTE, extra)
        _agree(ctx, "generate_weights vs compute_atom_weight", base["generate_weights"], base["compute_atom_weight"], TOL_ROUTE, extra)
        _agree(ctx, "compute_weights vs compute_atom_weight", base["compute_weights"], base["compute_atom_weight"], TOL_ROUTE, extra)
        err32 = None
        idx = random_segments(rng, n, m)
        own = mon.owners_from_indices(n, idx)
        for name in names:
            fp, fa, fnn, _need, single = FORMS[name]
            form = (fp, fa, fnn)
            ctx.count("input-form:" + name)
            if single:
                coord = np.abs(pts).max(axis=1) + np.abs(at).max()
                e = forward_error_bound(at, pts, nums, None, order, coord)
                err32 = None if e is None else 1e-6 + 8.0 * e * (np.finfo(np.float32).eps / np.finfo(float).eps)
            for rname, fn in routes.items():
                subj = f"BeckeWeights.{rname}[{name}]"
                with ctx.guard("input-form-invariant", subj):
                    got = fn(form)
                    if got.shape != base[rname].shape:
                        ctx.check("input-form-invariant", subj, False, sig="shape", detail=extra)
                        continue
                    d = np.abs(got - base[rname])
                    d = np.where(np.isnan(d), np.inf, d)
                    if single:
                        # everything in single precision: compare within the single-precision conditioning of the formula
                        if err32 is None:
                            continue
                        ok = (err32 < 1e-3) & (np.spacing(np.float32(coord)).astype(float)[None, :] * 64.0 <= mon.min_atom_distance(at))
                        if not ok.any():
                            continue
                        ratio = np.where(ok, d / err32, 0.0)
                        k = np.unravel_index(int(np.argmax(ratio)), ratio.shape)
                        ctx.check("input-form-invariant-single", subj, float(ratio[k]), 1.0, sig="differs-from-float64-copy", detail={"abs_diff": float(d[k]), "bound": float(err32[k]), "point": pts[k[1]], **extra})
                    else:
                        k = np.unravel_index(int(np.argmax(d)), d.shape)
                        ctx.check("input-form-invariant", subj, float(d[k]), TOL_FORM, sig="differs-from-float64-copy", detail={"abs_diff": float(d[k]), "got": float(got[k]), "float64": float(base[rname][k]), "point": pts[k[1]], "atom": int(k[0]), **extra})
            # segment-wise whole-grid call in this form
            subj = f"BeckeWeights.__call__(segments)[{name}]"
            if not single:
                with ctx.guard("input-form-invariant", subj):
                    mon.reset_run()
                    got = bw(fp(pts), fa(at), fnn(nums), idx)
                    d = np.abs(got - base["compute_atom_weight"][own, np.arange(n)])
                    ctx.check("input-form-invariant", subj, float(np.max(np.where(np.isnan(d), np.inf, d))), TOL_FORM, sig="differs-from-float64-copy", detail=extra)
    else:
        nums = np.asarray(rng.choice(HIRSH_ELEMS, m), dtype=np.int64)
        keep = np.linalg.norm(pts[:, None, :] - at[None, :, :], axis=-1).max(axis=1) < 12.0
        pts = np.ascontiguousarray(pts[keep])
        n = len(pts)
        if n < 4:
            ctx.discard("no points in the well-conditioned Hirshfeld range")
            return
        hw = HirshfeldWeights()
        base = hirshfeld_matrix(ctx, hw, pts, at, nums)
        if base is None:
            return
        for name in names:
            fp, fa, fnn, _need, single = FORMS[name]
            ctx.count("input-form:hirshfeld:" + name)
            subj = f"HirshfeldWeights.__call__[{name}]"
            try:
                got = np.array([hw(fp(pts), fa(at), fnn(nums), np.array([0] * (i + 1) + [n] * (m - i))) for i in range(m)])
            except TypeError as exc:
                if "atnums dtype" in str(exc) and fnn(nums).dtype != np.int64:
                    # the callee's own documented argument check ("atnums dtype should be int"): rejected, not a violation
                    ctx.count("input-form:hirshfeld-rejects-atnums-dtype-" + str(fnn(nums).dtype))
                    ctx.observe("HirshfeldWeights.__call__ rejects atnums arrays that are not int64 by its own documented TypeError check, BeckeWeights accepts them (not decided)", dtype=str(fnn(nums).dtype))
                    continue
                ctx.fail("input-form-invariant", subj, "raised:TypeError", detail={"error": str(exc)[:200], **extra})
                continue
            except Exception as exc:  # noqa: BLE001
                from gridrv import core

                if core.is_library_exception(exc):
                    ctx.fail("input-form-invariant", subj, f"raised:{type(exc).__name__}", detail={"error": str(exc)[:200], **extra})
                    continue
                raise
            d = np.abs(got - base)
            d = np.where(np.isnan(d), np.inf, d)
            k = np.unravel_index(int(np.argmax(d)), d.shape)
            tol = 2e-5 if single else 1e-12
            ctx.check("input-form-invariant-single" if single else "input-form-invariant", subj, float(d[k]), tol, sig="differs-from-float64-copy", detail={"abs_diff": float(d[k]), "point": pts[k[1]], **extra})


# ------------------------------------------------------------------ clones and option-value spellings
TOL_SAME = 1e-15  # same code on the same numbers: identical


def _same(ctx, clause, subject, got, want, extra):
    if np.shape(got) != np.shape(want):
        ctx.check(clause, subject, False, sig="shape", detail={"shapes": [list(np.shape(got)), list(np.shape(want))], **extra})
        return
    d = np.abs(np.asarray(got, float) - want)
    d = np.where(np.isnan(d), np.inf, d)
    ctx.check(clause, subject, float(d.max()) if d.size else 0.0, TOL_SAME, sig="weights-differ", detail={"max_abs_diff": float(d.max()) if d.size else 0.0, **extra})


def clones_options_case(ctx, params):
    from gridrv import core
    from grid.becke import BeckeWeights
    from grid.hirshfeld import HirshfeldWeights

    rng = ctx.rng
    m, order, kind = int(params["M"]), int(params["order"]), params["clone"]
    at = make_atoms(rng, m, GEOMS[int(rng.integers(len(GEOMS)))])
    if at is None:
        ctx.discard("generator could not place atoms 0.05 bohr apart")
        return
    nums = make_elements(rng, m, params["elem"])
    zs = np.unique(nums)
    radii = {int(z): float(10.0 ** rng.uniform(-0.5, 0.7)) for z in rng.choice(zs, size=int(rng.integers(1, len(zs) + 1)), replace=False)} if rng.random() < 0.6 else None
    pts, _ = make_points(rng, at, 40, far_max=1e8)
    n = len(pts)
    extra = {"M": m, "order": order, "custom_radii": radii is not None, "atnums": nums[:10]}
    bw = BeckeWeights(radii=radii, order=order)
    idx = random_segments(rng, n, m)
    sel = [int(v) for v in rng.permutation(m)[: max(1, m - 1)]]
    pt = [int(v) for v in random_segments(rng, n, len(sel))]
    one = int(rng.integers(0, m))

    def all_routes(b, prefix):
        """Every route on one weight object, plain Python / int64 argument forms."""
        out = {}
        for name, fn in (
            ("__call__", lambda: matrix_by_call(b, pts, at, nums)[0]),
            ("__call__(segments)", lambda: b(pts, at, nums, idx)),
            ("generate_weights", lambda: matrix_by_generate(b, pts, at, nums)),
            ("generate_weights(select,pt_ind)", lambda: b.generate_weights(pts, at, nums, select=sel, pt_ind=pt)),
            ("compute_weights", lambda: matrix_by_compute_weights(b, pts, at, nums)),
            ("compute_weights(select,pt_ind)", lambda: b.compute_weights(pts, at, nums, select=sel, pt_ind=pt)),
            ("compute_atom_weight", lambda: matrix_by_atom(b, pts, at, nums)),
        ):
            with ctx.guard("no-exception", prefix + name):
                out[name] = fn()
        mon.reset_run()
        return out

    base = all_routes(bw, "BeckeWeights.")
    if len(base) < 7:
        return
    _sum_check(ctx, "BeckeWeights.compute_atom_weight", base["compute_atom_weight"], pts, extra)
    # ---- (1) clone of the weight object: same weights by every route, original unchanged
    c = roundtrip.check_clone(ctx, "BeckeWeights", bw, kind)
    if c is not None:
        got = all_routes(c, f"BeckeWeights<{kind}>.")
        for name, w in got.items():
            _same(ctx, "clone-equals-original", f"BeckeWeights.{name}:{kind}", w, base[name], extra)
        again = all_routes(bw, "BeckeWeights.")
        for name, w in again.items():
            _same(ctx, "original-unchanged-by-cloning", f"BeckeWeights.{name}:{kind}", w, base[name], extra)
        if rng.random() < 0.5:  # a clone of a clone
            k2 = roundtrip.pick(rng, 1)[0]
            with ctx.guard("clone-equals-original", f"BeckeWeights:{kind}+{k2}", sig_prefix="raised-while-cloning"):
                c2 = roundtrip.clone(c, k2)
                _same(ctx, "clone-equals-original", f"BeckeWeights.compute_atom_weight:{kind}+{k2}", matrix_by_atom(c2, pts, at, nums), base["compute_atom_weight"], extra)
    # ---- (2) equal-but-not-identical option values.  "must" forms are accepted by the unchanged tree (measured), an
    # exception there is a failure; "may" forms are rejected today: counted, compared only if a tree accepts them
    ref_sel = base["generate_weights(select,pt_ind)"]
    ref_one = base["compute_atom_weight"][one]
    sel_forms = {"tuple": tuple(sel), "int64-array": np.array(sel, dtype=np.int64), "int32-array": np.array(sel, dtype=np.int32), "list-of-numpy-ints": [np.int64(v) if i % 2 else np.int32(v) for i, v in enumerate(sel)]}
    pt_forms = {"list": list(pt), "tuple": tuple(pt), "int64-array": np.array(pt, dtype=np.int64), "int32-array": np.array(pt, dtype=np.int32)}
    sname = list(sel_forms)[int(rng.integers(len(sel_forms)))]
    for pname, pform in pt_forms.items():
        for route in ("generate_weights", "compute_weights"):
            subj = f"BeckeWeights.{route}[select={sname},pt_ind={pname}]"
            with ctx.guard("option-spelling-invariant", subj):
                _same(ctx, "option-spelling-invariant", subj, getattr(bw, route)(pts, at, nums, select=sel_forms[sname], pt_ind=pform), ref_sel, extra)
    for sn, sform in sel_forms.items():
        for route in ("generate_weights", "compute_weights"):
            subj = f"BeckeWeights.{route}[select={sn},pt_ind=list]"
            with ctx.guard("option-spelling-invariant", subj):
                _same(ctx, "option-spelling-invariant", subj, getattr(bw, route)(pts, at, nums, select=sform, pt_ind=list(pt)), ref_sel, extra)
    for sn, sform in {"np.int64": np.int64(one), "np.int32": np.int32(one), "np.uint8": np.uint8(one)}.items():
        for route, fn in (("generate_weights", lambda v: bw.generate_weights(pts, at, nums, select=v)), ("compute_weights", lambda v: bw.compute_weights(pts, at, nums, select=v)), ("compute_atom_weight", lambda v: bw.compute_atom_weight(pts, at, nums, v))):
            subj = f"BeckeWeights.{route}[select={sn}]"
            with ctx.guard("option-spelling-invariant", subj):
                _same(ctx, "option-spelling-invariant", subj, fn(sform), ref_one, extra)
    for sn, sform in {"[i]": [one], "(i,)": (one,), "array([i])": np.array([one])}.items():
        for route in ("generate_weights", "compute_weights"):
            subj = f"BeckeWeights.{route}[select={sn}]"
            with ctx.guard("option-spelling-invariant", subj):
                _same(ctx, "option-spelling-invariant", subj, getattr(bw, route)(pts, at, nums, select=sform), ref_one, extra)
    mon.reset_run()
    for an, aform in {"int32": nums.astype(np.int32), "uint8": nums.astype(np.uint8)}.items():
        for route, fn, want in (
            ("generate_weights", lambda v: bw.generate_weights(pts, at, v, select=sel, pt_ind=pt), ref_sel),
            ("compute_weights", lambda v: bw.compute_weights(pts, at, v, select=sel, pt_ind=pt), ref_sel),
            ("compute_atom_weight", lambda v: bw.compute_atom_weight(pts, at, v, one), ref_one),
            ("__call__", lambda v: bw(pts, at, v, idx), base["__call__(segments)"]),
        ):
            subj = f"BeckeWeights.{route}[atnums={an}]"
            with ctx.guard("option-spelling-invariant", subj):
                _same(ctx, "option-spelling-invariant", subj, fn(aform), want, extra)
    mon.reset_run()

    def may(label, fn, want, subj):
        try:
            got = fn()
        except Exception as exc:  # noqa: BLE001
            if core.is_library_exception(exc) or isinstance(exc, (TypeError, ValueError, AttributeError)):
                ctx.count("option-form-rejected:" + label)
                return
            raise
        ctx.count("option-form-accepted:" + label)
        _same(ctx, "option-spelling-invariant", subj, got, want, extra)

    may("atnums-list", lambda: bw.generate_weights(pts, at, [int(z) for z in nums], select=sel, pt_ind=pt), ref_sel, "BeckeWeights.generate_weights[atnums=list]")
    may("atnums-tuple", lambda: bw.compute_atom_weight(pts, at, tuple(int(z) for z in nums), one), ref_one, "BeckeWeights.compute_atom_weight[atnums=tuple]")
    may("atnums-list:__call__", lambda: bw(pts, at, [int(z) for z in nums], idx), base["__call__(segments)"], "BeckeWeights.__call__[atnums=list]")
    may("indices-list:__call__", lambda: bw(pts, at, nums, [int(v) for v in idx]), base["__call__(segments)"], "BeckeWeights.__call__[indices=list]")
    for on, oform in {"np.int64": np.int64(order), "np.int32": np.int32(order)}.items():
        may("order-" + on, lambda: matrix_by_atom(BeckeWeights(radii=radii, order=oform), pts, at, nums), base["compute_atom_weight"], f"BeckeWeights[order={on}].compute_atom_weight")
    mon.reset_run()
    # ---- Hirshfeld object: clone and index-table spellings
    hn = np.asarray(rng.choice(HIRSH_ELEMS, m), dtype=np.int64)
    near = np.linalg.norm(pts[:, None, :] - at[None, :, :], axis=-1).max(axis=1) < 12.0
    hp = np.ascontiguousarray(pts[near])
    if len(hp) >= 4:
        hw = HirshfeldWeights()
        hidx = random_segments(rng, len(hp), m)
        with ctx.guard("no-exception", "HirshfeldWeights.__call__"):
            href = hw(hp, at, hn, hidx)
            hc = roundtrip.check_clone(ctx, "HirshfeldWeights", hw, kind)
            if hc is not None:
                _same(ctx, "clone-equals-original", f"HirshfeldWeights.__call__:{kind}", hc(hp, at, hn, hidx), href, extra)
                _same(ctx, "original-unchanged-by-cloning", f"HirshfeldWeights.__call__:{kind}", hw(hp, at, hn, hidx), href, extra)
            for iname, iform in {"list": [int(v) for v in hidx], "tuple": tuple(int(v) for v in hidx), "int32-array": hidx.astype(np.int32)}.items():
                subj = f"HirshfeldWeights.__call__[indices={iname}]"
                with ctx.guard("option-spelling-invariant", subj):
                    _same(ctx, "option-spelling-invariant", subj, hw(hp, at, hn, iform), href, extra)
        may("hirshfeld-atnums-int32", lambda: hw(hp, at, hn.astype(np.int32), hidx), href, "HirshfeldWeights.__call__[atnums=int32]")
        may("hirshfeld-atnums-list", lambda: hw(hp, at, [int(z) for z in hn], hidx), href, "HirshfeldWeights.__call__[atnums=list]")


def run_case(ctx, family, params):
    if family in ("becke-structured", "becke-random", "becke-noble"):
        becke_case(ctx, params, family)
    elif family == "becke-select":
        select_case(ctx, params)
    elif family == "becke-axis":
        axis_case(ctx, params)
    elif family == "becke-molgrid":
        molgrid_case(ctx, params, "becke")
    elif family == "hirshfeld-molgrid":
        molgrid_case(ctx, params, "hirshfeld")
    elif family == "hirshfeld-random":
        hirshfeld_case(ctx, params)
    elif family == "pinned-hirshfeld-far":
        pinned_hirshfeld(ctx, params)
    elif family == "becke-beyond-resolution":
        beyond_resolution_case(ctx, params)
    elif family == "zero-points":
        zero_points_case(ctx, params)
    elif family == "input-forms":
        forms_case(ctx, params)
    elif family == "clones-options":
        clones_options_case(ctx, params)
    else:
        raise ValueError(family)
