"""C18 - multi-domain integration equals the iterated product quadrature."""

from __future__ import annotations

import weakref

import numpy as np

from gridrv import instrument
from gridrv.monitors import roundtrip
from gridrv.oracles import c18ref

PROP = "C18"
TITLE = "Multi-domain integration equals the iterated product quadrature"
REQUIRED_HOOKS = ["MultiDomainGrid.__init__", "MultiDomainGrid.integrate", "MultiDomainGrid.size", "MultiDomainGrid.points", "MultiDomainGrid.weights", "MultiDomainGrid.num_domains"] + [f"clone:{k}" for k in roundtrip.KINDS]
REQUIRED_FAMILIES = ["product", "repeated", "default-chunk", "hostile", "history", "huge-size", "forms", "shared-return"]
BUDGET = {"quick": 300, "thorough": 2400}
TOL = 1e-12
TOLW = 1e-14
# component grids whose WEIGHTS are stored in single precision: the library multiplies them in float32 (np.prod of a tuple of
# float32), so the product quadrature itself is only defined to float32 rounding (measured <= 2.4e-7); decided at 5e-5
TOL32 = 5e-5
MAX_REF = 40000  # product sets larger than this are not enumerated by the monitor
RULE = (
    "Post-conditions attached to MultiDomainGrid.__init__/.integrate/.size/.num_domains/.points/.weights fire on every call: the "
    "integral is compared with an explicit nested sum over the product set (own numpy.ndindex enumeration of private copies of "
    "the domain points/weights, integrand evaluated point by point, long-double accumulation, rel 1e-12 of sum|prod w f|); size == "
    "product of sizes; num_domains == number of arguments; a second evaluation of .points/.weights and the generators handed to "
    "the caller are compared element by element with the reference product order (first domain slowest). The integrand is wrapped: "
    "invocations are counted (vectorised: product of all sizes but the last, 1 for one domain; point-by-point: product of all "
    "sizes), every invocation must have one argument per domain, and in point-by-point mode the sequence of argument tuples must "
    "be the reference order. One case = one list of 1-4 domain grids (sizes 1-7, <= 3000 tuples; flat 1-D, (N,1), 2-D, 3-D "
    "points; bare Grid, Gauss-Legendre/other OneDGrid rules, AngularGrid(6 points), UniformGrid, small AtomGrid) or one grid "
    "repeated num_domains = 1-4 times, integrated with separable and non-separable integrands: vectorised, and point by point "
    "with every chunk size in {1,2,3,7,N-1,N,N+1,6000} (+ np.int64 chunk); family default-chunk uses 6001-16000 tuples so that "
    "the default chunk size really splits. history = ONE MultiDomainGrid object driven through 4-8 rounds of (random subset of: "
    "enumerate size/points/weights, vectorised integral, point-by-point integrals with random chunk sizes) with a component grid's "
    "weights or points changed between rounds through the public Grid setters / in place; every round is decided against the CURRENT "
    "component arrays (the reference copies them at every call). huge-size = product sets of 2**40 .. 2**200 tuples in repeated and "
    "list mode: size must be the exact integer product (never enumerated). forms = component grids with integer / float32 points "
    "and weights, integrands returning integer / float32 / complex / Python-float values, num_domains as NumPy integers. "
    "shared-return = integrands whose RETURN VALUE is shared state (same preallocated buffer each call, cached array per shape, strided "
    "view into a larger buffer, read-only view of a shared buffer, the input array object itself; point-by-point: scalar read from a "
    "shared buffer, cached Python float), 1-4 domains, list and repeated mode, > 64 and > 1024 leading-argument combinations: integral "
    "== same integrand with fresh return values == nested sum, component arrays unchanged. "
    "clones: in product/repeated/history cases the MultiDomainGrid (and, every other case, its component grids before construction) "
    "goes through copy.copy / copy.deepcopy / pickle (protocols default and 2): public state of clone == original, original unchanged, "
    "and the clone is decided by the same post-conditions against the ORIGINAL's component grids. "
    "Non-trivial = at least one integral was compared with the nested sum (huge-size: one size compared)."
)
ASSUMPTIONS = [
    "reference order of the product set: first domain slowest, last domain fastest (the documented nested-loop order)",
    "integrands are pure functions of their arguments returning finite floats; the vectorised integrand returns an array over the points of the LAST domain",
    "chunk sizes are positive integers (integration_chunk_size=0 is inadmissible; on the present tree it silently returns 0.0 - seen once by hand, deliberately NOT part of the workload: a mutant of the chunk iterator never terminates for it)",
]
LEVEL_TEXT = "Every integrate call of the workload is decided against an explicit long-double nested sum over the enumerated product set; all routes (vectorised / point-by-point x 8-9 chunk sizes) per case; 1-4 domains of mixed point dimension; repeated-grid mode 1-4."
TECHNIQUE = "runtime monitoring: post-conditions on MultiDomainGrid.integrate/size/points/weights/num_domains with a brute-force product-set reference and an invocation-counting integrand wrapper"

# what the integrand's RETURN VALUE is: the same preallocated buffer on every call, a cached array per input shape, a view
# into a larger buffer, a read-only view of a shared buffer, the input array object itself (identity in the last argument), and
# for point-by-point mode a scalar read out of a shared buffer / a cached Python float
SHARED_RETURNS = ["same-buffer", "cache-per-shape", "view-of-larger-buffer", "read-only-shared", "input-itself", "pbp-scalar-from-shared-buffer", "pbp-cached-python-float"]
_state = {"ctx": None}
_reg = {}  # id(MultiDomainGrid) -> (grid_list copy, num_domains)
_memo = []  # [(mg, raw, doms, S, A)] most recent first


# ----------------------------------------------------------------------------- cases
def cases(tier, seed):
    out = []
    q = tier == "quick"
    for k in range(6 if q else 200):
        for D in (1, 2, 3, 4):
            for kind in ("separable", "coupled", "oscillating"):
                out.append(("product", {"D": D, "integrand": kind, "k": k}, 1.0 + 3.0 ** D / 8))
                out.append(("repeated", {"D": D, "integrand": kind, "k": k}, 1.0 + 3.0 ** D / 8))
    for k in range(6 if q else 96):
        out.append(("default-chunk", {"D": 2 + k % 3, "repeat": bool(k % 4 == 3), "k": k}, 40.0))
    for k in range(16 if q else 400):
        out.append(("history", {"D": 1 + k % 4, "repeat": bool(k % 3 == 2), "k": k}, 6.0))
    # product sets of 6.4e19 tuples in both modes (list mode wrapped around in int64 before fix 8f5e594), always run first
    out.append(("huge-size", {"mode": "list", "n": 2000, "k": 6, "pinned": True}, 1e9))
    out.append(("huge-size", {"mode": "repeated", "n": 2000, "k": 6, "pinned": True}, 1e9))
    for k in range(12 if q else 200):
        out.append(("huge-size", {"mode": ["repeated", "list", "mixed-list"][k % 3], "k": k}, 1.0))
    for form in ("int-grids", "float32-grids", "float32-points-only", "int-integrand", "float32-integrand", "complex-integrand", "numpy-num-domains"):
        for k in range(3 if q else 40):
            out.append(("forms", {"form": form, "k": k}, 2.0))
    for k in range(1 if q else 6):
        for how in SHARED_RETURNS:
            for D in (1, 2, 3, 4):
                for rep_mode in (False, True):
                    out.append(("shared-return", {"how": how, "D": D, "repeat": rep_mode, "k": k}, 8.0 if D > 1 else 2.0))
    for what in ("single-point-domains", "zero-weights", "signed-weights", "same-grid-listed", "numpy-int-num-domains", "num-domains-one", "python-float-integrand", "huge-chunk"):
        for k in range(2 if q else 20):
            out.append(("hostile", {"what": what, "k": k}, 2.0))
    return out


# ----------------------------------------------------------------------------- integrands
class Integrand:
    """Pure function of D arguments; argument k may carry a leading axis (vectorised call: only the last one does)."""

    def __init__(self, rng, dims, kind):
        self.kind = kind
        self.D = len(dims)
        self.coef = [rng.uniform(-1, 1, d) if d else float(rng.uniform(-1, 1)) for d in dims]  # d == 0: flat 1-D domain
        self.shift = [float(rng.uniform(-0.5, 0.5)) for _ in dims]
        self.pick = [int(rng.integers(0, 4)) for _ in dims]
        self.as_python_float = False
        self.returns = None  # None | "int" | "float32" | "complex"  (kind "poly" only)

    def u(self, k, a):
        a = np.asarray(a, dtype=float)
        c = self.coef[k]
        if self.kind == "poly" and not isinstance(c, float):
            # element-wise sum of products only: bit-identical for one point and for an array of points
            v = a[..., 0] * c[0]
            for j in range(1, len(c)):
                v = v + a[..., j] * c[j]
            return v + self.shift[k]
        return (a * c if isinstance(c, float) else a @ c) + self.shift[k]

    def h(self, k, u):
        p = self.pick[k]
        if p == 0:
            return np.cos(u) + 1.5
        if p == 1:
            return np.exp(-u * u)
        if p == 2:
            return 1.0 + u + 0.5 * u * u
        return np.sin(2 * u) - 0.3 * (k + 1)

    def __call__(self, *args):
        us = [self.u(k, a) for k, a in enumerate(args)]
        if self.kind == "separable":
            v = self.h(0, us[0])
            for k in range(1, self.D):
                v = v * self.h(k, us[k])
        elif self.kind == "coupled":
            s = sum(us)
            v = np.exp(-0.3 * s * s) + 0.1 * us[0] * us[-1] ** 2
            p = 1.0
            for k, u in enumerate(us):
                p = p * np.cos(u + k)
            v = v + 0.5 * p
        elif self.kind == "poly":  # + and * only (exactly reproducible), then cast to the requested return type
            v = us[0] + 0.5 * us[0] * us[-1]
            for k, u in enumerate(us):
                v = v + (k + 1.0) * u * u
            if self.returns == "int":
                v = np.floor(v * 8.0)
                return v.astype(np.int64) if np.ndim(v) else int(v)
            if self.returns == "float32":
                return np.float32(v) if np.ndim(v) == 0 else v.astype(np.float32)
            if self.returns == "complex":
                return v + 1j * (us[-1] * us[0] - 0.25)
        else:  # oscillating, sign-changing, not symmetric in the arguments
            v = np.sin(sum((k + 1.0) * u for k, u in enumerate(us))) + us[-1] * 0
        return float(v) if (self.as_python_float and np.ndim(v) == 0) else v


class Counted:
    """Invocation-counting wrapper handed to the library; ``raw`` is what the reference evaluates."""

    def __init__(self, raw, D):
        self.raw, self.D = raw, D
        self.reset()

    def reset(self):
        self.calls, self.log, self.bad_arity = 0, [], None

    def __call__(self, *args):
        self.calls += 1
        if len(args) != self.D:
            self.bad_arity = len(args)
            raise TypeError(f"integrand takes {self.D} positional arguments but {len(args)} were given")
        if len(self.log) < 20000:
            self.log.append(args)
        return self.raw(*args)


# ----------------------------------------------------------------------------- reference plumbing
def _ref_grids(mg):
    """Domain grids as given to the constructor (NOT through the properties under test)."""
    ent = _reg.get(id(mg))
    if ent is None or ent[2]() is not mg:
        return None
    glist, nd = ent[0], ent[1]
    return (glist * nd if nd is not None else list(glist)), nd


def _reference(mg, raw):
    """(doms, S, A) for the CURRENT arrays of the component grids: they are copied at every call, the nested sum is only
    re-used when the copies are byte-identical to those of an earlier call with the same integrand."""
    rg = _ref_grids(mg)
    if rg is None:
        return None
    grids, _ = rg
    n = 1
    for g in grids:
        n *= int(np.asarray(g.weights).size)
    if n > MAX_REF:
        return None
    doms = c18ref.domain_arrays(grids)
    key = c18ref.digest(doms)
    for e in _memo:
        if e[0] is raw and e[1] == key:
            return doms, e[2], e[3]
    S, A = c18ref.nested_sum(doms, raw)
    _memo.insert(0, (raw, key, S, A))
    del _memo[6:]
    return doms, S, A


def _tol(grids):
    """1e-12, or TOL32 when some component grid stores its weights in single (or half) precision."""
    for g in grids:
        if np.asarray(g.weights).dtype in (np.float32, np.float16):
            return TOL32, "[float32-weights]"
    return TOL, ""


def _bind(names, defaults, args, kwargs):
    vals = dict(defaults)
    for n, a in zip(names, args):
        vals[n] = a
    vals.update(kwargs)
    return vals


def _register(mg, grid_list, num_domains, label=""):
    """Remember the construction arguments of ``mg`` (the reference never goes through the properties under test).  Clones
    (copy / deepcopy / pickle) do not pass __init__: the workload registers them with the ORIGINAL's arguments, so that a clone is
    decided as 'the product grid that was built with these arguments'."""
    _reg[id(mg)] = (list(grid_list), num_domains, weakref.ref(mg), label)
    weakref.finalize(mg, _reg.pop, id(mg), None)


def _mode(mg):
    ent = _reg.get(id(mg))
    return ("repeated" if ent and ent[1] is not None else "list") + (ent[3] if ent else "")


# ----------------------------------------------------------------------------- monitors
def _post_init(res, exc, args, kwargs):
    ctx = _state["ctx"]
    a = _bind(["grid_list", "num_domains"], {"grid_list": None, "num_domains": None}, args[1:], kwargs)
    if exc is not None:
        ctx.count(f"init-rejected:{type(exc).__name__}")
        return
    mg = args[0]
    _register(mg, a["grid_list"], a["num_domains"])


def _post_integrate(res, exc, args, kwargs):
    ctx = _state["ctx"]
    mg = args[0]
    a = _bind(["integrand_function", "non_vectorized", "integration_chunk_size"], {"non_vectorized": False, "integration_chunk_size": 6000}, args[1:], kwargs)
    fn = a.get("integrand_function")
    if fn is None or _ref_grids(mg) is None:
        ctx.count("integrate:not-decidable-call")
        return
    nv, chunk = bool(a["non_vectorized"]), a["integration_chunk_size"]
    grids, nd = _ref_grids(mg)
    D = len(grids)
    subj = f"integrate[{'point-by-point' if nv else 'vectorised'},D={D},{_mode(mg)}]"
    if not (isinstance(chunk, (int, np.integer)) and chunk >= 1):
        ctx.count("integrate:inadmissible-chunk-size")
        return
    if exc is not None:
        ctx.fail("integral-equals-nested-sum", subj, f"raised:{type(exc).__name__}", detail={"error": str(exc)[:300], "chunk": int(chunk), "sizes": [int(g.size) for g in grids]})
        return
    raw = getattr(fn, "raw", fn)
    ref = _reference(mg, raw)
    if ref is None:
        ctx.count("integrate:product-set-too-large-for-reference")
        return
    doms, S, A = ref
    n = 1
    for d in doms:
        n *= len(d[1])
    ctx.check("integral-is-scalar", subj, np.ndim(res) == 0, detail={"type": type(res).__name__})
    if np.ndim(res) != 0:
        return
    if np.iscomplexobj(res) or np.iscomplexobj(S):
        got = np.clongdouble(complex(res))
        ctx.count("integrate-decided:complex-valued integrand (real and imaginary parts)")
    else:
        got = np.longdouble(float(res))
    meas = float(abs(got - S) / A) if A > 0 else (0.0 if got == 0 else float("inf"))
    tol, tag32 = _tol(grids)
    if nv:
        sig = f"chunk-{'divides' if n % int(chunk) == 0 else 'does-not-divide'}-N" if chunk < n else "chunk>=N"
    else:
        sig = "vectorised"
    ctx.check("integral-equals-nested-sum" + tag32, subj, meas, tol, sig=sig, detail={"got": complex(res) if np.iscomplexobj(res) else float(res), "want": complex(S) if np.iscomplexobj(S) else float(S), "scale": float(A), "chunk": int(chunk), "N": n, "sizes": [len(d[1]) for d in doms]})
    ctx.count(f"integrate-decided:{'point-by-point' if nv else 'vectorised'}:D={D}:{_mode(mg)}")


def _post_size(res, exc, args, kwargs):
    ctx = _state["ctx"]
    mg = args[0]
    rg = _ref_grids(mg)
    if rg is None:
        return
    grids, _ = rg
    subj = f"size[D={len(grids)},{_mode(mg)}]"
    if exc is not None:
        ctx.fail("size-equals-product-of-sizes", subj, f"raised:{type(exc).__name__}", detail={"error": str(exc)[:200]})
        return
    want = 1
    for g in grids:
        want *= int(np.asarray(g.weights).size)
    ok = np.ndim(res) == 0 and isinstance(res, (int, np.integer)) and int(res) == want
    sig = None
    if want >= 2**63:
        # far too large to enumerate: the size is still defined (exact integer product of the component sizes)
        subj = f"size[huge,{_mode(mg)}]"
        if not ok and np.ndim(res) == 0 and isinstance(res, (int, np.integer)):
            sig = "int64-wraparound" if int(res) == (want + 2**63) % 2**64 - 2**63 else "mismatch"
        ctx.count(f"size-decided:huge:{_mode(mg)}")
    ctx.check("size-equals-product-of-sizes", subj, ok, sig=sig, detail={"got": repr(res)[:40], "want": str(want), "sizes": sorted({int(np.asarray(g.weights).size) for g in grids}), "D": len(grids)})


def _post_num_domains(res, exc, args, kwargs):
    ctx = _state["ctx"]
    mg = args[0]
    rg = _ref_grids(mg)
    if rg is None:
        return
    grids, _ = rg
    subj = f"num_domains[{_mode(mg)}]"
    if exc is not None:
        ctx.fail("num-domains", subj, f"raised:{type(exc).__name__}")
        return
    ctx.check("num-domains", subj, res == len(grids), detail={"got": repr(res)[:40], "want": len(grids)})


def _compare_points(got, doms):
    """None when list ``got`` equals the reference product list, else a short description."""
    want = c18ref.product_points(doms)
    if len(got) != len(want):
        return f"length:{len(got)}!={len(want)}"
    for i, (g, w) in enumerate(zip(got, want)):
        if not isinstance(g, tuple) or len(g) != len(w):
            return f"tuple-arity-at-{i}"
        for k, (x, y) in enumerate(zip(g, w)):
            if np.shape(x) != np.shape(y) or not np.array_equal(np.asarray(x), np.asarray(y)):
                return f"first-bad-domain={k}"
    return None


def _compare_weights(got, doms, tol=TOLW):
    want = c18ref.product_weights(doms)
    try:
        got = np.array([float(v) for v in got])
    except Exception:
        return "not-floats", float("inf")
    if len(got) != len(want):
        return f"length:{len(got)}!={len(want)}", float("inf")
    scale = np.where(want != 0, np.abs(want), 1.0)
    m = float(np.max(np.abs(got - want) / scale)) if len(want) else 0.0
    return ("mismatch" if not m <= tol else None), m


def _make_generator_post(which, fget_holder):
    def post(res, exc, args, kwargs):
        ctx = _state["ctx"]
        mg = args[0]
        rg = _ref_grids(mg)
        if rg is None:
            return
        grids, _ = rg
        subj = f"{which}[D={len(grids)},{_mode(mg)}]"
        clause = f"{which}-product-order"
        if exc is not None:
            ctx.fail(clause, subj, f"raised:{type(exc).__name__}", detail={"error": str(exc)[:200]})
            return
        n = 1
        for g in grids:
            n *= int(np.asarray(g.weights).size)
        if n > 8000:
            ctx.count(f"{which}:too-large-to-enumerate")
            return
        # the generator handed to the caller must not be consumed: evaluate the property a second time (unwrapped)
        second = list(fget_holder["fget"](mg))
        doms = c18ref.domain_arrays(grids)
        if which == "points":
            why = _compare_points(second, doms)
            ctx.check(clause, subj, why is None, sig=why)
        else:
            tol32 = _tol(grids)[0] if _tol(grids)[1] else TOLW
            why, m = _compare_weights(second, doms, tol32)
            ctx.check(clause + _tol(grids)[1], subj, m, tol32, sig=why)

    return post


def _wrap_property(ctx, cls, name, post, hook, outermost_only=False, holder=None):
    raw = cls.__dict__[name]
    if getattr(raw.fget, "__gridrv_orig__", None) is not None:
        return
    if holder is not None:
        holder["fget"] = raw.fget
    w = instrument._make(raw.fget, post, ctx, hook, outermost_only)
    setattr(cls, name, property(w, raw.fset, raw.fdel, raw.__doc__))


def setup(ctx):
    _state["ctx"] = ctx
    c18ref.self_test()
    from grid.ngrid import MultiDomainGrid

    instrument.wrap_method(ctx, MultiDomainGrid, "__init__", _post_init, hook="MultiDomainGrid.__init__")
    instrument.wrap_method(ctx, MultiDomainGrid, "integrate", _post_integrate, hook="MultiDomainGrid.integrate")
    _wrap_property(ctx, MultiDomainGrid, "size", _post_size, "MultiDomainGrid.size")
    _wrap_property(ctx, MultiDomainGrid, "num_domains", _post_num_domains, "MultiDomainGrid.num_domains")
    hp, hw = {}, {}
    # points/weights monitors fire for accesses from outside integrate() (inside, the integral itself is decided)
    _wrap_property(ctx, MultiDomainGrid, "points", _make_generator_post("points", hp), "MultiDomainGrid.points", outermost_only=True, holder=hp)
    _wrap_property(ctx, MultiDomainGrid, "weights", _make_generator_post("weights", hw), "MultiDomainGrid.weights", outermost_only=True, holder=hw)


# ----------------------------------------------------------------------------- workload
DOMAIN_KINDS = ["flat1d", "col1d", "2d", "3d", "gausslegendre", "onedrule", "angular6", "uniform2d", "atomgrid", "3d", "flat1d", "int-grid"]


def _domain(rng, kind, size):
    """(grid, dim) with dim = 0 for flat 1-D points."""
    from grid.angular import AngularGrid
    from grid.atomgrid import AtomGrid
    from grid.basegrid import Grid, OneDGrid
    from grid.cubic import UniformGrid
    from grid import onedgrid

    w = rng.uniform(0.1, 1.0, size) * (1.0 if rng.random() < 0.8 else 10.0 ** rng.uniform(-3, 3))
    if kind == "flat1d":
        return Grid(rng.normal(size=size), w), 0
    if kind == "col1d":
        return Grid(rng.normal(size=(size, 1)), w), 1
    if kind == "2d":
        return Grid(rng.normal(size=(size, 2)), w), 2
    if kind == "3d":
        return Grid(rng.normal(size=(size, 3)), w), 3
    if kind == "int-grid":  # integer-typed points AND weights (exact products)
        dim = int(rng.integers(0, 4))
        return Grid(rng.integers(-3, 4, (size, dim) if dim else size), rng.integers(1, 5, size)), dim
    if kind in ("float32-grid", "float32-points"):
        dim = int(rng.integers(0, 4))
        pts = rng.normal(size=(size, dim) if dim else size).astype(np.float32)
        return Grid(pts, w.astype(np.float32) if kind == "float32-grid" else w), dim
    if kind == "gausslegendre":
        return onedgrid.GaussLegendre(max(size, 2)), 0  # rules are defined for npoints >= 2
    if kind == "onedrule":
        cls = [onedgrid.GaussChebyshev, onedgrid.Trapezoidal, onedgrid.MidPoint, onedgrid.GaussChebyshevType2][int(rng.integers(0, 4))]
        return cls(max(size, 2)), 0  # these rules are defined for npoints >= 2
    if kind == "angular6":
        return AngularGrid(degree=3, method="lebedev"), 3
    if kind == "uniform2d":
        shape = np.array([2, max(2, min(3, size // 2))])
        return UniformGrid(rng.normal(size=2), np.diag(rng.uniform(0.2, 1.0, 2)) + rng.uniform(-0.1, 0.1, (2, 2)), shape), 2
    if kind == "atomgrid":
        rg = OneDGrid(np.array([0.5]), np.array([1.0]), (0, np.inf))
        return AtomGrid(rg, degrees=[3], center=rng.normal(size=3)), 3
    raise ValueError(kind)


def _chunks(n):
    out = []
    for c in (1, 2, 3, 7, n - 1, n, n + 1, 6000):
        if c >= 1 and c not in out:
            out.append(c)
    return out


def _single_integral(dom, f, k):
    """sum_i w_i h_k(u_k(p_i)) and sum of magnitudes in long double (own sum, for separable integrands)."""
    pts, w = dom
    vals = np.array([float(f.h(k, f.u(k, p))) for p in pts], dtype=np.longdouble)
    t = vals * w.astype(np.longdouble)
    return t.sum(), np.abs(t).sum()


def _exercise(ctx, mg, grids_ref, dims, kinds, chunks=None, log_args=True, parts=("enum", "vec", "pbp"), returns=None):
    """Drive every public observable of one MultiDomainGrid; the attached post-conditions decide, plus cross-route checks.

    ``parts`` selects what is exercised (history cases use random subsets); the component arrays are copied NOW, so every
    call of this function is decided against the current state of the component grids."""
    rng = ctx.rng
    D = len(grids_ref)
    doms = c18ref.domain_arrays(grids_ref)
    tol, tag32 = _tol(grids_ref)
    tolw = tol if tag32 else TOLW
    sizes = [len(d[1]) for d in doms]
    n = int(np.prod(sizes))
    mode = _mode(mg)
    tag = f"D={D},{mode}"
    with ctx.guard("num-domains", f"num_domains[{mode}]"):
        ctx.check("num-domains", f"num_domains[{mode}]:seen-by-caller", mg.num_domains == D)
    with ctx.guard("size-equals-product-of-sizes", f"size[{tag}]"):
        ctx.check("size-equals-product-of-sizes", f"size[{tag}]:seen-by-caller", int(mg.size) == n)
    if n <= 8000 and "enum" in parts:
        with ctx.guard("points-product-order", f"points[{tag}]"):
            why = _compare_points(list(mg.points), doms)
            ctx.check("points-product-order", f"points[{tag}]:generator-seen-by-caller", why is None, sig=why)
        with ctx.guard("weights-product-order", f"weights[{tag}]"):
            why, m = _compare_weights(list(mg.weights), doms, tolw)
            ctx.check("weights-product-order" + tag32, f"weights[{tag}]:generator-seen-by-caller", m, tolw, sig=why)
            # lock-step: zip(points, weights) pairs each tuple with the product of ITS weights
            pairs = list(zip(mg.points, mg.weights))
            ctx.check("points-weights-lock-step", f"zip[{tag}]", len(pairs) == n)
    ref_points = c18ref.product_points(doms) if n <= 20000 else None
    for kind in kinds:
        f = Integrand(rng, dims, kind)
        f.as_python_float = bool(rng.random() < 0.3)
        f.returns = returns
        F = Counted(f, D)
        ref = _reference(mg, f)
        if ref is None:
            raise RuntimeError("reference not available for a workload case")
        _, S, A = ref
        results = {}
        subj_v = f"integrate[vectorised,{tag}]"
        if "vec" in parts:
            with ctx.guard("integral-equals-nested-sum", subj_v):
                F.reset()
                results["vectorised"] = mg.integrate(F) if rng.random() < 0.5 else mg.integrate(integrand_function=F, non_vectorized=False)
                want_calls = int(np.prod(sizes[:-1])) if D > 1 else 1
                ctx.check("integrand-invocations", subj_v, F.calls == want_calls, sig=f"calls/expected={F.calls / want_calls:.3g}", detail={"calls": F.calls, "want": want_calls, "sizes": sizes})
                # every vectorised invocation: D arguments, the last one is the complete point array of the last domain
                last_ok = all(len(a) == D and np.shape(a[-1]) == np.shape(doms[-1][0]) and np.array_equal(a[-1], doms[-1][0]) for a in F.log)
                ctx.check("integrand-arguments", subj_v, last_ok, sig="last-argument-is-not-the-last-domain")
                if D > 1 and ref_points is not None:
                    pre = c18ref.product_points(doms[:-1])
                    seq_ok = len(F.log) == len(pre) and all(all(np.array_equal(x, y) for x, y in zip(a[:-1], p)) for a, p in zip(F.log, pre))
                    ctx.check("integrand-arguments", subj_v + ":leading", seq_ok, sig="leading-arguments-not-in-product-order")
        if F.bad_arity is not None:
            ctx.fail("integrand-arguments", subj_v, f"called-with-{'more' if F.bad_arity > D else 'fewer'}-arguments-than-domains", detail={"got": F.bad_arity, "D": D})
        for ch in (chunks or _chunks(n)) if "pbp" in parts else ():
            subj_p = f"integrate[point-by-point,{tag}]"
            with ctx.guard("integral-equals-nested-sum", subj_p):
                F.reset()
                cs = np.int64(ch) if (ch == 3 and rng.random() < 0.5) else ch
                if ch == 6000 and rng.random() < 0.7:
                    r = mg.integrate(F, True)  # default chunk size
                elif rng.random() < 0.5:
                    r = mg.integrate(F, non_vectorized=True, integration_chunk_size=cs)
                else:
                    r = mg.integrate(F, True, cs)
                results[f"chunk={ch}"] = r
                ctx.count("chunk-sizes-exercised")
                ctx.check("integrand-invocations", subj_p, F.calls == n, sig=f"calls/expected={F.calls / n:.3g}", detail={"calls": F.calls, "want": n, "chunk": ch})
                if log_args and ref_points is not None and len(F.log) == n:
                    seq_ok = all(len(a) == D and all(np.shape(x) == np.shape(y) and np.array_equal(x, y) for x, y in zip(a, p)) for a, p in zip(F.log, ref_points))
                    ctx.check("integrand-arguments", subj_p, seq_ok, sig="arguments-not-in-product-order")
            if F.bad_arity is not None:
                ctx.fail("integrand-arguments", subj_p, f"called-with-{'more' if F.bad_arity > D else 'fewer'}-arguments-than-domains", detail={"got": F.bad_arity, "D": D})
        # all routes agree with each other (each was also compared with the nested sum by the monitor)
        vals = {k: complex(v) for k, v in results.items() if np.ndim(v) == 0}
        if len(vals) >= 2 and A > 0:
            keys = list(vals)
            spread, lo, hi = 0.0, keys[0], keys[0]
            for i, a in enumerate(keys):
                for b in keys[i + 1 :]:
                    d = abs(vals[a] - vals[b]) / float(A)
                    if d > spread or d != d:
                        spread, lo, hi = d, a, b
            ctx.check("routes-agree" + tag32, f"integrate[{tag}]", spread, 2 * tol, sig="routes-differ", detail={"one": lo, "other": hi, "values": {k: repr(v) for k, v in list(vals.items())[:12]}})
        if kind == "separable" and not tag32:
            prod, mag = np.longdouble(1.0), np.longdouble(1.0)
            for k in range(D):
                s, a = _single_integral(doms[k], f, k)
                prod, mag = prod * s, mag * a
            if "vectorised" in results and mag > 0:
                ctx.check("separable-equals-product-of-single-integrals", f"integrate[vectorised,{tag}]", float(abs(np.longdouble(float(results["vectorised"])) - prod) / mag), TOL)
            any_p = next((v for k, v in results.items() if k.startswith("chunk")), None)
            if any_p is not None and mag > 0:
                ctx.check("separable-equals-product-of-single-integrals", f"integrate[point-by-point,{tag}]", float(abs(np.longdouble(float(any_p)) - prod) / mag), TOL)
    ctx.case_note("sizes", sizes)
    ctx.case_note("dims", dims)


def _sizes(rng, D, cap=3000):
    while True:
        s = [int(v) for v in rng.integers(1, 8, D)]
        if int(np.prod(s)) <= cap:
            return s


def run_case(ctx, family, params):
    from grid.basegrid import Grid
    from grid.ngrid import MultiDomainGrid

    rng = ctx.rng
    if family == "product":
        D = params["D"]
        sizes = _sizes(rng, D)
        grids, dims = [], []
        for s in sizes:
            g, d = _domain(rng, str(rng.choice(DOMAIN_KINDS)), s)
            grids.append(g)
            dims.append(d)
        with ctx.guard("constructible", f"MultiDomainGrid[list,D={D}]"):
            mg = MultiDomainGrid(grids) if rng.random() < 0.5 else MultiDomainGrid(grid_list=grids)
            _exercise(ctx, mg, grids, dims, [params["integrand"]])
            _clones(ctx, mg, grids, None, dims, params["integrand"])
    elif family == "repeated":
        D = params["D"]
        g, d = _domain(rng, str(rng.choice(DOMAIN_KINDS)), int(rng.integers(1, 8)))
        with ctx.guard("constructible", f"MultiDomainGrid[repeated,D={D}]"):
            mg = MultiDomainGrid([g], num_domains=D) if rng.random() < 0.5 else MultiDomainGrid([g], D)
            _exercise(ctx, mg, [g] * D, [d] * D, [params["integrand"]])
            _clones(ctx, mg, [g], D, [d] * D, params["integrand"])
    elif family == "default-chunk":
        D = params["D"]
        lo, hi = {2: (60, 131), 3: (12, 31), 4: (6, 13)}[D]
        while True:
            sizes = [int(v) for v in rng.integers(lo, hi, D)]
            if 6001 <= int(np.prod(sizes)) <= 16000:
                break
        if params["repeat"]:
            n1 = int(rng.integers(78, 120)) if D == 2 else (int(rng.integers(19, 25)) if D == 3 else int(rng.integers(9, 11)))
            g, d = _domain(rng, str(rng.choice(["flat1d", "3d", "gausslegendre"])), n1)
            mg = MultiDomainGrid([g], num_domains=D)
            grids, dims = [g] * D, [d] * D
        else:
            grids, dims = [], []
            for s in sizes:
                g, d = _domain(rng, str(rng.choice(["flat1d", "col1d", "2d", "3d", "gausslegendre"])), s)
                grids.append(g)
                dims.append(d)
            mg = MultiDomainGrid(grids)
        n = int(np.prod([g.size for g in grids]))
        _exercise(ctx, mg, grids, dims, [["coupled", "separable", "oscillating"][params["k"] % 3]], chunks=[6000, 4096, n // 2 + 1, 5999], log_args=True)
    elif family == "hostile":
        _hostile(ctx, params)
    elif family == "history":
        _history(ctx, params)
    elif family == "huge-size":
        _huge_size(ctx, params)
    elif family == "forms":
        _forms(ctx, params)
    elif family == "shared-return":
        _shared_return(ctx, params)
    else:
        raise ValueError(family)


def _clones(ctx, mg, glist, nd, dims, integrand):
    """The object (and, every other case, its component grids before construction) goes through copy.copy / copy.deepcopy /
    pickle; a clone is 'the product grid built with these arguments': it is registered with the ORIGINAL's component grids and
    pushed through the same post-conditions and caller-side comparisons as the original."""
    from grid.ngrid import MultiDomainGrid

    rng = ctx.rng
    grids_ref = list(glist) * nd if nd is not None else list(glist)
    n = int(np.prod([int(np.asarray(g.weights).size) for g in grids_ref]))
    mode = "repeated" if nd is not None else "list"
    for kind in roundtrip.pick(rng, 1 if ctx.tier == "quick" else 2):
        cand = _chunks(n)
        chunks = [cand[int(i)] for i in rng.choice(len(cand), size=min(len(cand), 2), replace=False)]
        c = roundtrip.check_clone(ctx, f"MultiDomainGrid[{mode},D={len(grids_ref)}]", mg, kind)
        if c is not None:
            _register(c, glist, nd, label=",clone:" + kind)
            _exercise(ctx, c, grids_ref, dims, [integrand], chunks=chunks)
        if rng.random() < 0.5:  # the component grids are cloned BEFORE the product grid is constructed
            distinct = {}
            for g in glist:
                if id(g) not in distinct:
                    distinct[id(g)] = roundtrip.check_clone(ctx, f"component:{type(g).__name__}", g, kind)
            if all(v is not None for v in distinct.values()):
                comps = [distinct[id(g)] for g in glist]
                mg2 = MultiDomainGrid(comps, num_domains=nd) if nd is not None else MultiDomainGrid(comps)
                _register(mg2, glist, nd, label=",components-cloned:" + kind)  # reference = the ORIGINAL component grids
                _exercise(ctx, mg2, grids_ref, dims, [integrand], chunks=chunks)
        ctx.count("clones-exercised:" + kind)


class SharedReturn:
    """Integrand whose return value is shared state; ``raw`` (what the reference evaluates) returns fresh values."""

    def __init__(self, raw, how):
        self.raw, self.how = raw, how
        self.bufs, self.big, self.calls, self.cache = {}, np.zeros(0), 0, {}

    def __call__(self, *args):
        self.calls += 1
        if self.how == "input-itself":
            return args[-1]  # the very array object handed in by the library (the grid's points)
        v = self.raw(*args)
        if np.ndim(v) == 0:  # point-by-point call
            if self.how == "pbp-cached-python-float":
                return self.cache.setdefault(float(v), float(v))
            buf = self.bufs.setdefault((), np.zeros(1))
            buf[0] = v
            return buf[0] if self.how.startswith("pbp") else float(v)
        v = np.asarray(v, dtype=float)
        if self.how == "view-of-larger-buffer":
            if self.big.size < 2 * v.size + 7:
                self.big = np.zeros(2 * v.size + 7)
            out = self.big[3 : 3 + 2 * v.size : 2]  # strided view that does not own its data
            out[...] = v
            return out
        buf = self.bufs.get(v.shape)
        if buf is None:
            buf = self.bufs[v.shape] = np.zeros(v.shape)
        np.copyto(buf, v)
        if self.how == "read-only-shared":
            ro = buf.view()
            ro.flags.writeable = False
            return ro
        return buf


def _shared_return(ctx, params):
    """Integrand callbacks whose return value is shared state, with enough leading-argument combinations (> 64 and > 1024) for
    any blocking: the integral must equal the one obtained with fresh return values and the nested sum."""
    from grid.ngrid import MultiDomainGrid

    rng = ctx.rng
    how, D, repeated, k = params["how"], params["D"], params["repeat"], params["k"]
    big = bool((k + D) % 2)  # > 1024 leading combinations, else > 64
    flat_last = how == "input-itself"
    if repeated:
        n1 = {1: int(rng.integers(65, 2000)), 2: int(rng.integers(66, 120)), 3: int(rng.integers(33, 35)) if big else int(rng.integers(9, 14)), 4: 11 if big else int(rng.integers(5, 7))}[D]
        g, d = _domain(rng, "flat1d" if flat_last else str(rng.choice(["flat1d", "col1d", "2d", "3d", "int-grid"])), n1)
        glist, nd, grids, dims = [g], D, [g] * D, [d] * D
        mg = MultiDomainGrid([g], num_domains=D)
    else:
        if D == 1:
            lead = []
        else:
            target = int(rng.integers(1030, 1400)) if big else int(rng.integers(66, 200))
            lead = [target] if D == 2 else ([int(np.ceil(target ** 0.5))] * 2 if D == 3 else [int(np.ceil(target ** (1 / 3)))] * 3)
            lead[0] += int(rng.integers(0, 3))
        sizes = lead + [int(rng.integers(65, 3000)) if D == 1 else int(rng.integers(2, 9))]
        grids, dims = [], []
        for i, sz in enumerate(sizes):
            last = i == len(sizes) - 1
            g, d = _domain(rng, "flat1d" if (last and flat_last) else str(rng.choice(["flat1d", "col1d", "2d", "3d", "int-grid"])), sz)
            grids.append(g)
            dims.append(d)
        glist, nd = grids, None
        mg = MultiDomainGrid(grids)
    mode = _mode(mg)
    tag = f"{how},D={D},{mode}"
    if how == "input-itself":
        raw = _LastArgument()
    else:
        raw = Integrand(rng, dims, str(rng.choice(["coupled", "separable", "oscillating"])))
    ref = _reference(mg, raw)
    if ref is None:
        raise RuntimeError("reference not available for a workload case")
    doms, S, A = ref
    n = int(np.prod([len(dm[1]) for dm in doms]))
    before = c18ref.digest(doms)
    F = SharedReturn(raw, how)
    pbp = how.startswith("pbp")
    results = {}
    with ctx.guard("integral-equals-nested-sum", f"integrate[shared-return:{tag}]"):
        if pbp:
            for ch in (7, n + 1, 6000):
                results[f"shared,chunk={ch}"] = mg.integrate(F, non_vectorized=True, integration_chunk_size=ch)
            results["fresh"] = mg.integrate(Counted(raw, D), non_vectorized=True)
        else:
            results["shared"] = mg.integrate(F)
            want_calls = int(np.prod([len(dm[1]) for dm in doms[:-1]])) if D > 1 else 1
            ctx.check("integrand-invocations", f"integrate[vectorised,shared-return:{tag}]", F.calls == want_calls, sig=f"calls/expected={F.calls / want_calls:.3g}")
            results["shared-again"] = mg.integrate(F)  # the buffers now hold the values of the previous run
            results["fresh"] = mg.integrate(Counted(raw, D))
            if how != "input-itself" and n <= 12000:
                results["shared,point-by-point"] = mg.integrate(F, non_vectorized=True)
            ctx.case_note("leading_combinations", want_calls)
    if A > 0 and "fresh" in results:
        worst, wk = 0.0, None
        for key, v in results.items():
            dv = abs(float(v) - float(results["fresh"])) / float(A)
            if dv > worst or dv != dv:
                worst, wk = dv, key
        ctx.check("shared-return-equals-fresh-return", f"integrate[{tag}]", worst, 2 * TOL, sig=f"differs:{(wk or '').split(',')[0]}", detail={k2: float(v) for k2, v in results.items()})
    ctx.check("arguments-unchanged", f"integrate[{tag}]", c18ref.digest(c18ref.domain_arrays(grids)) == before, sig="component points/weights modified")
    ctx.count("shared-return:" + how)


class _LastArgument:
    """f(x_1..x_D) = x_D for a flat 1-D last domain (vectorised: the array of the last domain's points itself)."""

    def __call__(self, *args):
        return args[-1]


def _mutate(ctx, rng, g):
    """Change one component grid through the public Grid interface; returns a label."""
    how = str(rng.choice(["weights-setter", "weights-setter", "weights-inplace-mul", "weights-slice-assign", "points-setter", "points-inplace", "both-setters"]))
    w = np.asarray(g.weights)
    p = np.asarray(g.points)
    # some grid classes re-define points/weights as read-only properties (AtomGrid.points): edit those in place
    if getattr(getattr(type(g), "points", None), "fset", None) is None and how in ("points-setter", "both-setters"):
        how = "points-inplace"
    if getattr(getattr(type(g), "weights", None), "fset", None) is None and how in ("weights-setter", "both-setters", "weights-inplace-mul"):
        how = "weights-slice-assign"
    if how in ("weights-setter", "both-setters"):
        g.weights = (rng.uniform(0.1, 2.0, w.shape) * (1.0 if rng.random() < 0.7 else 10.0 ** rng.uniform(-2, 2))).astype(w.dtype if w.dtype.kind == "f" else float)
    if how == "weights-inplace-mul":
        if w.dtype.kind == "f":
            g.weights *= float(rng.uniform(1.5, 3.0))  # getter, in-place multiply, setter with the same array
        else:
            g.weights = w * int(rng.integers(2, 4))
    if how == "weights-slice-assign":
        g.weights[: max(1, len(w) // 2)] = rng.integers(1, 5, max(1, len(w) // 2)) if w.dtype.kind != "f" else rng.uniform(0.1, 2.0, max(1, len(w) // 2))
    if how in ("points-setter", "both-setters"):
        g.points = (p + rng.normal(size=p.shape) * 0.3).astype(p.dtype) if p.dtype.kind == "f" else p + rng.integers(-1, 2, p.shape)
    if how == "points-inplace":
        g.points[...] = p[::-1].copy()  # same set of points, reversed order
    ctx.count("history:mutation:" + how)
    return how


def _history(ctx, params):
    """One MultiDomainGrid object, several rounds; between rounds a component grid changes through its public setters."""
    from grid.ngrid import MultiDomainGrid

    rng = ctx.rng
    D = params["D"]
    if params["repeat"]:
        g, d = _domain(rng, str(rng.choice(DOMAIN_KINDS)), int(rng.integers(1, 6)))
        grids, dims = [g] * D, [d] * D
        mg = MultiDomainGrid([g], num_domains=D)
    else:
        grids, dims = [], []
        for sz in _sizes(rng, D, 600):
            g, d = _domain(rng, str(rng.choice(DOMAIN_KINDS)), min(sz, 6))
            grids.append(g)
            dims.append(d)
        if D >= 2 and rng.random() < 0.2:
            grids[-1], dims[-1] = grids[0], dims[0]  # the same object in two positions
        mg = MultiDomainGrid(grids)
    n = int(np.prod([gg.size for gg in grids]))
    rounds = int(rng.integers(4, 9))
    all_parts = ("enum", "vec", "pbp")
    for r in range(rounds):
        if r == 0 or rng.random() < 0.35:
            parts = all_parts
        else:
            parts = tuple(x for x in all_parts if rng.random() < 0.5) or (str(rng.choice(all_parts)),)
        cand = _chunks(n)
        chunks = [cand[int(i)] for i in rng.choice(len(cand), size=min(len(cand), int(rng.integers(1, 4))), replace=False)]
        kind = str(rng.choice(["coupled", "separable", "oscillating"]))
        _exercise(ctx, mg, grids, dims, [kind], chunks=chunks, parts=parts)
        ctx.count("history:rounds")
        if r < rounds - 1 and rng.random() < 0.8:
            _mutate(ctx, rng, grids[int(rng.integers(0, D))])
    # a clone of the FINAL state (no mutation afterwards) must describe the current component grids as well
    if params["repeat"]:
        _clones(ctx, mg, [grids[0]], D, dims, "coupled")
    else:
        _clones(ctx, mg, grids, None, dims, "coupled")
    ctx.case_note("rounds", rounds)


def _huge_size(ctx, params):
    """Product sets far too large to enumerate: size must still be the exact integer product."""
    from grid.basegrid import Grid
    from grid.ngrid import MultiDomainGrid

    rng = ctx.rng
    mode = params["mode"]
    if params.get("pinned"):
        ns, k = [params["n"]], params["k"]
    else:
        n = int(rng.choice([2, 3, 7, 10, 40, 150, 1000, 2000, 3900, 50000]))
        bits = float(rng.uniform(40, 200)) if rng.random() < 0.8 else float(rng.uniform(62.5, 64.5))
        ns = [n]
        if mode == "mixed-list":
            ns = [int(v) for v in rng.choice([2, 3, 7, 10, 40, 150, 1000, 2000, 3900], 3)]
        k = max(2, int(round(bits / float(np.mean(np.log2(ns))))))
    gs = []
    for n in ns:
        dim = int(rng.integers(0, 4))
        gs.append(Grid(np.zeros((n, dim) if dim else n), np.ones(n)))
    if mode == "repeated":
        mg = MultiDomainGrid([gs[0]], num_domains=k)
        want = ns[0] ** k
    else:
        glist = [gs[i % len(gs)] for i in range(k)]
        mg = MultiDomainGrid(glist)
        want = 1
        for g in glist:
            want *= int(g.weights.size)
    subj = f"size[{'huge' if want >= 2**63 else 'large'},{'repeated' if mode == 'repeated' else 'list'}]"
    with ctx.guard("size-equals-product-of-sizes", subj):
        got = mg.size  # the attached post-condition decides it as well
        ok = isinstance(got, (int, np.integer)) and int(got) == want
        sig = None
        if not ok and isinstance(got, (int, np.integer)):
            sig = "int64-wraparound" if int(got) == (want + 2**63) % 2**64 - 2**63 else "mismatch"
        ctx.check("size-equals-product-of-sizes", subj, ok, sig=sig, detail={"got": repr(got)[:40], "want": str(want), "sizes": ns, "D": k})
        ctx.check("num-domains", f"num_domains[{'repeated' if mode == 'repeated' else 'list'}]:seen-by-caller", mg.num_domains == k)
    ctx.case_note("size_bits", int(want.bit_length()))


def _forms(ctx, params):
    """Argument forms: dtypes of the component arrays, return types of the integrand, NumPy-integer num_domains."""
    from grid.ngrid import MultiDomainGrid

    rng = ctx.rng
    form = params["form"]
    D = int(rng.integers(1, 5))
    repeated = bool(rng.random() < 0.35)
    kind_of = {"int-grids": ["int-grid"], "float32-grids": ["float32-grid"], "float32-points-only": ["float32-points"]}.get(form, ["flat1d", "col1d", "2d", "3d", "int-grid"])
    if form == "numpy-num-domains":
        g, d = _domain(rng, str(rng.choice(["3d", "flat1d"])), int(rng.integers(1, 6)))
        for nd in (np.int64(D), np.int32(D)):
            try:
                mg = MultiDomainGrid([g], num_domains=nd)
                ctx.count(f"num_domains of type {type(nd).__name__} accepted")
                _exercise(ctx, mg, [g] * D, [d] * D, ["coupled"], chunks=[3])
            except ValueError:
                ctx.count(f"num_domains of type {type(nd).__name__} rejected (ValueError; documented type int)")
        mg = MultiDomainGrid([g], num_domains=D)
        _exercise(ctx, mg, [g] * D, [d] * D, ["coupled"], chunks=[2])
        return
    if repeated:
        g, d = _domain(rng, str(rng.choice(kind_of)), int(rng.integers(1, 7)))
        grids, dims = [g] * D, [d] * D
        mg = MultiDomainGrid([g], num_domains=D)
    else:
        grids, dims = [], []
        for sz in _sizes(rng, D, 800):
            g, d = _domain(rng, str(rng.choice(kind_of)), sz)
            grids.append(g)
            dims.append(d)
        mg = MultiDomainGrid(grids)
    returns = {"int-integrand": "int", "float32-integrand": "float32", "complex-integrand": "complex"}.get(form)
    kinds = ["poly"] if returns else ["coupled", "separable", "poly"]
    _exercise(ctx, mg, grids, dims, kinds, returns=returns)


def _hostile(ctx, params):
    from grid.basegrid import Grid
    from grid.ngrid import MultiDomainGrid

    rng = ctx.rng
    what = params["what"]
    D = int(rng.integers(1, 5))
    if what == "single-point-domains":
        grids, dims = [], []
        for _ in range(D):
            g, d = _domain(rng, str(rng.choice(["flat1d", "col1d", "2d", "3d"])), 1)
            grids.append(g)
            dims.append(d)
        _exercise(ctx, MultiDomainGrid(grids), grids, dims, ["coupled", "separable"])
    elif what in ("zero-weights", "signed-weights"):
        grids, dims = [], []
        for s in _sizes(rng, D, 400):
            dim = int(rng.integers(0, 4))
            w = rng.normal(size=s)
            if what == "zero-weights":
                w = np.where(rng.random(s) < 0.5, 0.0, np.abs(w))
                if rng.random() < 0.3:
                    w[:] = 0.0
            grids.append(Grid(rng.normal(size=(s, dim)) if dim else rng.normal(size=s), w))
            dims.append(dim)
        _exercise(ctx, MultiDomainGrid(grids), grids, dims, ["coupled", "oscillating"])
    elif what == "same-grid-listed":
        g, d = _domain(rng, str(rng.choice(DOMAIN_KINDS)), int(rng.integers(2, 7)))
        D = int(rng.integers(2, 5))
        grids = [g] * D  # the same object listed D times (list mode, not num_domains)
        _exercise(ctx, MultiDomainGrid(grids), grids, [d] * D, ["coupled"])
    elif what == "numpy-int-num-domains":
        g, d = _domain(rng, "3d", 3)
        try:
            mg = MultiDomainGrid([g], num_domains=np.int64(2))
        except ValueError:
            ctx.count("num_domains of type np.int64 rejected (ValueError; documented type int)")
            mg = MultiDomainGrid([g], num_domains=2)
        _exercise(ctx, mg, [g, g], [d, d], ["coupled"])
    elif what == "num-domains-one":
        g, d = _domain(rng, str(rng.choice(DOMAIN_KINDS)), int(rng.integers(1, 8)))
        _exercise(ctx, MultiDomainGrid([g], num_domains=1), [g], [d], ["coupled", "separable"])
    elif what == "python-float-integrand":
        grids, dims = [], []
        for s in _sizes(rng, D, 300):
            g, d = _domain(rng, str(rng.choice(["flat1d", "2d", "3d"])), s)
            grids.append(g)
            dims.append(d)
        mg = MultiDomainGrid(grids)
        # a plain Python function (no wrapper object, no NumPy scalars): decided by the attached post-condition only
        cs = [float(v) for v in rng.uniform(-1, 1, D)]

        def plain(*a):
            return float(sum(c * float(np.sum(x)) for c, x in zip(cs, a))) ** 2

        for ch in _chunks(int(mg.size)):
            with ctx.guard("integral-equals-nested-sum", f"integrate[point-by-point,D={D},list]"):
                mg.integrate(plain, non_vectorized=True, integration_chunk_size=ch)
    elif what == "huge-chunk":
        grids, dims = [], []
        for s in _sizes(rng, D, 500):
            g, d = _domain(rng, str(rng.choice(DOMAIN_KINDS)), s)
            grids.append(g)
            dims.append(d)
        _exercise(ctx, MultiDomainGrid(grids), grids, dims, ["oscillating"], chunks=[10**9, 2**40])
    else:
        raise ValueError(what)
