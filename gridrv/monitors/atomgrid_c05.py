"""C05 monitors attached to grid.atomgrid.AtomGrid (reusable: C07 calls ``check_atomgrid_identity`` on every atom).

Post-conditions (public names only):

* ``AtomGrid.__init__``      -> ``check_atomgrid_identity``: the grid is radial grid x per-shell pristine spheres
* ``AtomGrid.get_shell_grid``-> the returned grid is that shell (weights with / without r^2, points minus centre)
* ``AtomGrid.from_pruned``   -> sector -> degree assignment (tie band on the sector edges)
* ``AtomGrid.from_preset``   -> builds for every tabulated element, no shell coarser than tabulated

The reference spheres are read from the data files by ``gridrv.oracles.datafiles`` (never through grid.angular),
the preset tables by ``gridrv.oracles.presets_c05``.  Monitors only read public attributes of the objects.
"""

from __future__ import annotations

import inspect

import numpy as np

from gridrv import instrument
from gridrv.oracles import datafiles, presets_c05

TOL_W = 1e-13  # relative, element-wise: weights are pure products w_i * r_i^2 * W_j
TOL_P = 1e-12  # absolute residual / (1 + |centre| + r_i)
TIE = 1e-9  # relative "don't care" band around a sector edge

TAG = {"v": None}  # set by the workload: names the configuration under test (becomes the subject)
_sphere_memo = {}
_sig_memo = {}


def set_tag(tag):
    TAG["v"] = tag


def sphere(method, degree):
    """Pristine (points, weights) of the supported row with that degree, or None when the degree is not a row."""
    key = (method, int(degree))
    if key not in _sphere_memo:
        size = dict(datafiles.table(method)).get(int(degree))
        _sphere_memo[key] = None if size is None else datafiles.pristine_sphere(method, int(degree), size)
    return _sphere_memo[key]


def _bind(orig, args, kwargs):
    fn = getattr(orig, "__gridrv_orig__", orig)
    fn = getattr(fn, "__func__", fn)
    if fn not in _sig_memo:
        _sig_memo[fn] = inspect.signature(fn)
    try:
        ba = _sig_memo[fn].bind(*args, **kwargs)
    except TypeError:
        return None
    ba.apply_defaults()
    return dict(ba.arguments)


def _is_int(v):
    return isinstance(v, (int, np.integer)) and not isinstance(v, bool)


def _request_rows(method, n, degrees=None, sizes=None):
    """Resolved (degree, size) per shell for the request, or None when it cannot be stated."""
    try:
        if sizes is not None:
            req = [int(s) for s in np.asarray(sizes).ravel()]
            rows = [datafiles.resolve(method, size=s) for s in req]
        elif degrees is not None:
            req = list(np.asarray(degrees).ravel())
            if not all(float(d) == int(d) for d in req):
                return None
            rows = [datafiles.resolve(method, degree=int(d)) for d in req]
        else:
            return None
    except (TypeError, ValueError):
        return None
    if len(rows) == 1 and n != 1:
        rows = rows * n
    if len(rows) != n or any(r is None for r in rows):
        return None
    return rows


def check_atomgrid_identity(ctx, at, request=None, tag=None):
    """Product identity of one constructed AtomGrid against pristine spheres.

    request: optional dict with the constructor arguments (rgrid, degrees, sizes, center, rotate, method);
    when given, the public attributes must echo them and ``degrees`` must be the resolved request.
    Returns a small dict (ok flag and maxima) for callers that want to note numbers.
    """
    req = request or {}
    method = str(at.method)
    subj = tag or TAG["v"] or f"AtomGrid:{method}"
    rg = at.rgrid
    r = np.asarray(rg.points, dtype=float)
    wr = np.asarray(rg.weights, dtype=float)
    n = len(r)
    pts = np.asarray(at.points)
    w = np.asarray(at.weights)
    ind = np.asarray(at.indices)
    c = np.asarray(at.center, dtype=float)
    cn = float(np.linalg.norm(c))
    rot = at.rotate
    out = {"ok": True}
    ctx.count("atomgrids-checked")
    ctx.count(f"class:method={method}")

    # ------------------------------------------------------------ echo of the arguments
    if "rgrid" in req:
        want_c = np.zeros(3) if req.get("center") is None else np.asarray(req["center"], dtype=float)
        echo = {
            "rgrid": rg is req["rgrid"] or (np.array_equal(rg.points, req["rgrid"].points) and np.array_equal(rg.weights, req["rgrid"].weights)),
            "center": c.shape == (3,) and np.array_equal(c, want_c),
            "rotate": req.get("rotate", 0) == rot,
            "method": str(req.get("method", "lebedev")).lower() == method,
        }
        bad = [k for k, v in echo.items() if not v]
        ctx.check("constructor-echo", subj, not bad, sig="differs:" + ",".join(bad), detail={"differs": bad})

    # ------------------------------------------------------------ index table
    try:
        degs = [int(d) for d in at.degrees]
    except TypeError:
        degs = []
    ok_ind = (
        ind.ndim == 1
        and len(ind) == n + 1
        and len(degs) == n
        and n == int(at.n_shells)
        and int(ind[0]) == 0
        and bool(np.all(np.diff(ind) > 0))
        and int(ind[-1]) == int(at.size) == len(w)
        and pts.shape == (len(w), 3)
        and ind.dtype.kind in "iu"
    )
    ctx.check("index-table", subj, ok_ind, sig="malformed", detail={"indices": ind[:6], "n_radial": n, "n_degrees": len(degs), "size": int(at.size), "points_shape": list(pts.shape)})
    if not ok_ind:
        out["ok"] = False
        return out

    # ------------------------------------------------------------ resolved degrees
    if "degrees" in req or "sizes" in req:
        rows = _request_rows(method, n, req.get("degrees"), req.get("sizes"))
        if rows is None:
            ctx.count("request-not-statable")
        else:
            want = [d for d, _ in rows]
            bad = [i for i in range(n) if degs[i] != want[i]]
            sig = None
            if bad:
                sig = "coarser" if degs[bad[0]] < want[bad[0]] else "finer"
            ctx.check("resolved-degree", subj, not bad, sig=sig, detail={"first_bad_shell": bad[:1], "got": [degs[i] for i in bad[:4]], "want": [want[i] for i in bad[:4]]})

    # ------------------------------------------------------------ per shell
    worst_w = worst_p = worst_0 = 0.0
    arg_w = arg_p = None
    size_bad = []
    n_r0 = 0
    eye = not bool(rot)
    for i in range(n):
        a, b = int(ind[i]), int(ind[i + 1])
        sp = sphere(method, degs[i])
        if sp is None or len(sp[0]) != b - a:
            size_bad.append((i, degs[i], b - a, None if sp is None else len(sp[0])))
            continue
        P, W = sp
        ri = float(r[i])
        # weights: w_i r_i^2 W_j
        ref = (wr[i] * ri**2) * W
        got = w[a:b]
        nz = ref != 0
        m = 0.0
        if nz.any():
            with np.errstate(invalid="ignore", divide="ignore"):
                m = float(np.max(np.abs(got[nz] - ref[nz]) / np.abs(ref[nz])))
        if (~nz).any() and np.any(got[~nz] != 0):
            m = float("inf")
        if not m <= worst_w:  # NaN propagates
            worst_w, arg_w = m, i
        # points
        X = pts[a:b] - c
        if ri == 0.0:
            n_r0 += 1
            m0 = max(float(np.max(np.abs(X))), float(np.max(np.abs(got))))
            if not m0 <= worst_0:
                worst_0 = m0
            continue
        if eye:
            model = c + ri * P
        else:
            U, _, Vt = np.linalg.svd(P.T @ X)
            model = c + ri * (P @ (U @ Vt))
        mp = float(np.max(np.abs(pts[a:b] - model))) / (1.0 + cn + ri)
        if not mp <= worst_p:
            worst_p, arg_p = mp, i
    ctx.count("shells-checked", n)
    if n_r0:
        ctx.count("class:r0-shells", n_r0)
    ctx.count("class:rotated" if not eye else "class:unrotated")
    ctx.check("shell-size", subj, not size_bad, sig="size-differs-from-sphere-of-degree", detail={"first": size_bad[:3], "fields": "shell,degree,got,sphere"})
    ctx.check("shell-weights", subj, worst_w, TOL_W, sig="w!=w_i*r_i^2*W", detail={"shell": arg_w, "r": None if arg_w is None else float(r[arg_w]), "degree": None if arg_w is None else degs[arg_w]})
    ctx.check("shell-points", subj, worst_p, TOL_P, sig="rotated:no-orthogonal-Q" if not eye else "unrotated:points!=c+r*P", detail={"shell": arg_p, "r": None if arg_p is None else float(r[arg_p]), "centre_norm": cn})
    if n_r0:
        ctx.check("r0-shell", subj, worst_0, 0.0, sig="not-at-centre-or-nonzero-weight")
    out.update(ok=not size_bad and worst_w <= TOL_W and worst_p <= TOL_P, max_w=worst_w, max_p=worst_p, r0=n_r0)
    return out


# ---------------------------------------------------------------------- sectors
def sector_span(r, edges):
    """(lo, hi) admissible sector positions for radii r and increasing edges, with the tie band."""
    r = np.asarray(r, dtype=float)[:, None]
    e = np.asarray(edges, dtype=float)[None, :]
    band = TIE * np.maximum(np.abs(r), np.abs(e))
    lo = np.sum(r - e > band, axis=1)
    hi = np.sum(r - e >= -band, axis=1)
    return lo, hi


def check_pruned(ctx, at, a, tag=None):
    """Post-condition of from_pruned: shell degree = resolved degree of the sector the radius lies in."""
    method = str(a.get("method", "lebedev")).lower()
    subj = tag or TAG["v"] or f"from_pruned:{method}"
    rg = a["rgrid"]
    edges = np.asarray(a["r_sectors"], dtype=float) * float(a["radius"])
    if edges.ndim != 1 or (len(edges) > 1 and not np.all(np.diff(edges) > 0)):
        ctx.count("pruned:edges-not-increasing(not decided)")
        return
    try:
        if a.get("s_sectors") is not None:
            rows = [datafiles.resolve(method, size=int(s)) for s in a["s_sectors"]]
        else:
            rows = [datafiles.resolve(method, degree=int(d)) for d in a["d_sectors"]]
    except (TypeError, ValueError):
        return
    if any(x is None for x in rows) or len(rows) != len(edges) + 1:
        return
    sdeg = np.array([d for d, _ in rows])
    lo, hi = sector_span(rg.points, edges)
    degs = np.array([int(d) for d in at.degrees])
    bad, ties = [], 0
    for i in range(len(degs)):
        allowed = set(int(x) for x in sdeg[lo[i] : hi[i] + 1])
        ties += hi[i] > lo[i]
        if degs[i] not in allowed:
            bad.append(i)
    if ties:
        ctx.count("class:radial-node-on-sector-edge(tie band)", int(ties))
    sig = None
    if bad:
        i = bad[0]
        where = [k for k in range(len(sdeg)) if sdeg[k] == degs[i]]
        sig = "degree-of-sector%+d" % (where[0] - int(lo[i])) if where and abs(where[0] - int(lo[i])) <= 2 else "degree-of-no-near-sector"
    ctx.check("sector-assignment", subj, not bad, sig=sig, detail={"first_bad_shell": bad[:1], "r": [float(rg.points[i]) for i in bad[:1]], "edges": edges[:8], "got": [int(degs[i]) for i in bad[:1]], "sector_degrees": sdeg[:9]})
    want_c = np.zeros(3) if a.get("center") is None else np.asarray(a["center"], dtype=float)
    echo = at.rgrid is rg and np.array_equal(at.center, want_c) and at.rotate == a.get("rotate", 0) and at.method == method
    ctx.check("constructor-echo", subj, bool(echo), sig="from_pruned-drops-argument")


# ---------------------------------------------------------------------- presets
def preset_admissible(a):
    """(admissible, reason) for a from_preset call: what the documented API promises to build."""
    preset, z, rg = a.get("preset"), a.get("atnum"), a.get("rgrid")
    if not isinstance(preset, str) or preset not in presets_c05.preset_names() or not _is_int(z):
        return False, "unknown-preset-or-atnum"
    t = presets_c05.table(preset)
    if int(z) not in t:
        return False, "element-not-tabulated"
    if str(a.get("method", "lebedev")).lower() not in datafiles.DIRS:
        return False, "unknown-method"
    n = presets_c05.prescribed_size(preset, int(z))
    if n is not None:
        if rg is None or getattr(rg, "size", None) != n:
            return False, "radial-size-not-as-prescribed"
    elif rg is None:
        return None, "default-radial-grid"  # admissible iff the library ships defaults for Z
    return True, ""


def check_preset(ctx, at, exc, a, tag=None):
    preset, z = a.get("preset"), a.get("atnum")
    adm, why = preset_admissible(a)
    if adm is False:
        ctx.count("preset-call-not-admissible:" + why)
        return
    subj = f"{preset}:Z={int(z)}"
    method = str(a.get("method", "lebedev")).lower()
    if exc is not None:
        if adm is None and isinstance(exc, ValueError) and "efault radial grid" in str(exc):
            ctx.count("preset-no-default-radial-grid(rejected)")
            return
        ctx.fail("preset-builds", subj, f"raised:{type(exc).__name__}", detail={"error": str(exc)[:200], "method": method})
        return
    ctx.check("preset-builds", subj, True)
    row = presets_c05.table(preset)[int(z)]
    rg = at.rgrid
    ind = np.asarray(at.indices)
    got = np.diff(ind)
    nsh = len(rg.points)
    if len(got) != nsh:
        ctx.fail("preset-not-coarser", subj, "shell-count-differs", detail={"shells": len(got), "radial": nsh})
        return
    if row["kind"] == "counts":
        tab = presets_c05.tabulated_sizes_by_shell(preset, int(z))
        if tab is None:
            ctx.fail("preset-not-coarser", subj, "built-from-inconsistent-row", detail={"rad": row["rad"], "npt": row["npt"]})
            return
        if len(row["npt"]) > len(row["rad"]):
            ctx.observe("shell-count row carries more sizes than sector counts (extra sizes ignored by the library)", row=subj, n_counts=len(row["rad"]), n_sizes=len(row["npt"]), ignored=row["npt"][len(row["rad"]) :])
        ctx.check("preset-radial-size", subj, nsh == len(tab), detail={"radial": nsh, "prescribed": len(tab)})
        if nsh != len(tab):
            return
        tab_lo = np.array(tab)
    else:
        edges, npt = row["rad"], row["npt"]
        if len(npt) != len(edges) + 1 or not np.all(np.diff(edges) > 0):
            ctx.observe("sector row is not S increasing edges with S+1 sizes", row=subj)
            return
        lo, hi = sector_span(rg.points, edges)
        tab_lo = np.array([int(np.min(npt[lo[i] : hi[i] + 1])) for i in range(nsh)])
        if np.any(hi > lo):
            ctx.count("class:radial-node-on-sector-edge(tie band)", int(np.sum(hi > lo)))
    coarser = np.where(got < tab_lo)[0]
    sig = None
    if len(coarser):
        sig = "shell-coarser-than-tabulated"
    ctx.check("preset-not-coarser", subj, len(coarser) == 0, sig=sig, detail={"first_shell": coarser[:1], "got": got[coarser[:3]], "tabulated": tab_lo[coarser[:3]], "r": np.asarray(rg.points)[coarser[:3]], "method": method})
    # exactly the smallest supported sphere not below the tabulated one?  (stronger than the statement: counted, not decided)
    exact = all(datafiles.resolve(method, size=int(t))[1] == int(g) for t, g in zip(tab_lo, got)) if row["kind"] == "counts" else None
    if exact is False:
        ctx.count("preset-shell-finer-than-smallest-admissible(not decided)")
    want_c = np.zeros(3) if a.get("center") is None else np.asarray(a["center"], dtype=float)
    echo = np.array_equal(at.center, want_c) and at.rotate == a.get("rotate", 0) and at.method == method and (a.get("rgrid") is None or at.rgrid is a["rgrid"])
    ctx.check("constructor-echo", subj, bool(echo), sig="from_preset-drops-argument")


# ---------------------------------------------------------------------- shells
def check_shell_grid(ctx, at, res, exc, a, tag=None):
    method = str(at.method)
    subj = tag or TAG["v"] or f"get_shell_grid:{method}"
    idx, r_sq = a.get("index"), a.get("r_sq", True)
    n = len(at.degrees)
    if not _is_int(idx) or not (0 <= idx < n) or not isinstance(r_sq, (bool, np.bool_)):
        ctx.count("shell-grid-call-not-admissible")
        return
    if exc is not None:
        ctx.fail("shell-grid", subj, f"raised:{type(exc).__name__}", detail={"error": str(exc)[:200], "index": int(idx)})
        return
    ind = np.asarray(at.indices)
    lo, hi = int(ind[idx]), int(ind[idx + 1])
    c = np.asarray(at.center, dtype=float)
    ri = float(at.rgrid.points[idx])
    wi = float(at.rgrid.weights[idx])
    sp, sw = np.asarray(res.points), np.asarray(res.weights)
    if sp.shape != (hi - lo, 3) or sw.shape != (hi - lo,):
        ctx.fail("shell-grid", subj, "shape-differs-from-shell", detail={"shape": list(sp.shape), "shell": hi - lo})
        return
    mp = float(np.max(np.abs(sp + c - np.asarray(at.points)[lo:hi]))) / (1.0 + float(np.linalg.norm(c)) + ri)
    ctx.check("shell-grid-points", subj, mp, TOL_P, sig="rotated" if at.rotate else "unrotated", detail={"index": int(idx), "r": ri})
    if r_sq:
        ref = np.asarray(at.weights)[lo:hi]
        name = "shell-grid-weights-r2"
    else:
        s = sphere(method, int(at.degrees[idx]))
        if s is None or len(s[1]) != hi - lo:
            ctx.fail("shell-grid", subj, "degree-not-a-supported-row")
            return
        ref = wi * s[1]
        name = "shell-grid-weights-no-r2"
    nz = ref != 0
    m = 0.0
    if nz.any():
        m = float(np.max(np.abs(sw[nz] - ref[nz]) / np.abs(ref[nz])))
    if (~nz).any() and np.any(sw[~nz] != 0):
        m = float("inf")
    ctx.check(name, subj, m, TOL_W, detail={"index": int(idx), "r": ri, "r_sq": bool(r_sq)})
    if ri == 0.0:
        ctx.count("class:shell-grid-at-r0")


# ---------------------------------------------------------------------- clones
def _state(at):
    """Public observable state of an atomic grid (arrays copied)."""
    rg = at.rgrid
    return {
        "points": np.array(at.points),
        "weights": np.array(at.weights),
        "indices": np.array(at.indices),
        "degrees": np.array([int(d) for d in at.degrees]),
        "center": np.array(at.center, dtype=float),
        "rotate": int(at.rotate),
        "method": str(at.method),
        "size": int(at.size),
        "rgrid.points": np.array(rg.points),
        "rgrid.weights": np.array(rg.weights),
    }


def _state_diff(a, b):
    out = []
    for k in a:
        x, y = a[k], b[k]
        same = (np.shape(x) == np.shape(y) and np.array_equal(x, y)) if isinstance(x, np.ndarray) else x == y
        if not same:
            out.append(k)
    return out


def check_clones(ctx, at, kinds, tag=None, shells=()):
    """copy.copy / copy.deepcopy / pickle round trips of one AtomGrid are still that atomic grid.

    Every clone goes through the post-conditions of a fresh grid (product identity with the clone's OWN centre, radial
    grid, degrees, rotation seed; shell grids through the post-condition attached to get_shell_grid), must equal the
    original bit for bit (arrays, index table, degrees, centre, seed, method, radial grid, shell grids = reproducibility
    from the seed) and cloning must leave the original untouched.  An exception while cloning or while reading the
    clone is a library exception (every class round-trips on the unchanged tree).
    """
    from gridrv.monitors import roundtrip

    subj0 = tag or TAG["v"] or f"AtomGrid:{at.method}"
    before = _state(at)
    n = len(before["degrees"])
    shells = sorted({int(i) for i in shells if 0 <= int(i) < n} | {0, n - 1})
    saved = TAG["v"]
    try:
        for kind in kinds:
            subj = f"{subj0}:{kind}"
            TAG["v"] = subj
            ctx.count(f"class:clone={kind}")
            g = ctx.guard("clone-roundtrip", subj)
            with g:
                cl = roundtrip.clone(at, kind)
                ctx.hit("AtomGrid.clone")
                st = _state(cl)
                diff = _state_diff(before, st)
                ctx.check("clone-equals-original", subj, not diff, sig="differs:" + ",".join(diff[:3]), detail={"differs": diff, "kind": kind, "centre": before["center"], "rotate": before["rotate"]})
                req = {"rgrid": cl.rgrid, "center": cl.center, "rotate": cl.rotate, "method": cl.method, "degrees": [int(d) for d in cl.degrees]}
                check_atomgrid_identity(ctx, cl, req, tag=subj)
                bad = []
                for i in shells:
                    for r_sq in (True, False):
                        a = cl.get_shell_grid(i, r_sq=r_sq)  # post-condition on get_shell_grid decides clone-vs-own-arrays
                        b = at.get_shell_grid(i, r_sq=r_sq)
                        if not (np.array_equal(a.points, b.points) and np.array_equal(a.weights, b.weights)):
                            bad.append((i, r_sq))
                ctx.check("clone-shell-grids-equal-original", subj, not bad, sig="rotated" if before["rotate"] else "unrotated", detail={"first": bad[:2], "kind": kind})
                v = np.cos(np.arange(before["size"], dtype=float))
                ctx.check("clone-equals-original", subj + ":integrate", float(cl.integrate(v)) == float(at.integrate(v)) if before["size"] else True, sig="integrate-differs")
            after = _state(at)
            diff = _state_diff(before, after)
            ctx.check("original-unchanged-by-cloning", subj, not diff, sig="changed:" + ",".join(diff[:3]), detail={"changed": diff, "kind": kind})
    finally:
        TAG["v"] = saved


# ---------------------------------------------------------------------- install
def install(ctx, identity=True, shells=True, pruned=True, preset=True):
    """Attach the post-conditions to the real class (idempotent per process)."""
    from grid.atomgrid import AtomGrid

    orig_init = AtomGrid.__dict__["__init__"]
    orig_shell = AtomGrid.__dict__["get_shell_grid"]
    orig_pruned = AtomGrid.__dict__["from_pruned"]
    orig_preset = AtomGrid.__dict__["from_preset"]

    def post_init(res, exc, args, kwargs):
        if exc is not None:
            return
        a = _bind(orig_init, args, kwargs)
        req = None
        if a is not None:
            req = {k: a.get(k) for k in ("rgrid", "center", "rotate", "method")}
            if a.get("sizes") is not None:
                req["sizes"] = a["sizes"]
            else:
                req["degrees"] = a.get("degrees")
        check_atomgrid_identity(ctx, args[0], req)

    def post_shell(res, exc, args, kwargs):
        a = _bind(orig_shell, args, kwargs)
        if a is not None:
            check_shell_grid(ctx, args[0], res, exc, a)

    def post_pruned(res, exc, args, kwargs):
        if exc is not None:
            return
        a = _bind(orig_pruned, args, kwargs)
        if a is not None:
            check_pruned(ctx, res, a)

    def post_preset(res, exc, args, kwargs):
        a = _bind(orig_preset, args, kwargs)
        if a is not None:
            check_preset(ctx, res, exc, a)

    if identity:
        instrument.wrap_method(ctx, AtomGrid, "__init__", post_init, hook="AtomGrid.__init__")
    if shells:
        instrument.wrap_method(ctx, AtomGrid, "get_shell_grid", post_shell, hook="AtomGrid.get_shell_grid")
    if pruned:
        instrument.wrap_method(ctx, AtomGrid, "from_pruned", post_pruned, hook="AtomGrid.from_pruned")
    if preset:
        instrument.wrap_method(ctx, AtomGrid, "from_preset", post_preset, hook="AtomGrid.from_preset")
