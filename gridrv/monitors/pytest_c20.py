"""pytest plugin: run the repository's own tests under the generic C20 snapshot monitor.

    GRIDRV_C20_OUT=/tmp/x.json [GRIDRV_C20_SHARD=i/n] [GRIDRV_C20_MONITOR=0] \
    PYTHONPATH=$GRID_REPO/src:/verif /venv/bin/python -m pytest -p gridrv.monitors.pytest_c20 \
        -p no:cacheprovider -q $GRID_REPO/src/grid/tests

writes a JSON side file with the outcome of every test of the shard and everything the monitor saw
(hits per public callable, evaluations per clause, failures with the test node id as context).
GRIDRV_C20_MONITOR=0 runs the same shard without the monitor (baseline for the transparency check).
"""

from __future__ import annotations

import json
import os

from gridrv.monitors import snapshot_c20 as S

_sink = S.DictSink()
_outcomes = {}
_state = {"monitor": False, "wrapped": 0}


def pytest_configure(config):
    if os.environ.get("GRIDRV_C20_MONITOR", "1") != "0":
        _state["wrapped"] = len(S.install(_sink))
        _state["monitor"] = True


def pytest_collection_modifyitems(config, items):
    shard = os.environ.get("GRIDRV_C20_SHARD")
    if shard:
        i, n = (int(t) for t in shard.split("/"))
        keep = items[i::n]
        drop = [it for k, it in enumerate(items) if k % n != i]
        if drop:
            config.hook.pytest_deselected(items=drop)
        items[:] = keep


def pytest_runtest_logstart(nodeid, location):
    _sink.context = nodeid


def pytest_runtest_logreport(report):
    prev = _outcomes.get(report.nodeid)
    if report.when == "call":
        if prev not in ("failed", "error"):
            _outcomes[report.nodeid] = report.outcome
    elif report.outcome == "failed":
        _outcomes[report.nodeid] = "error"
    elif report.outcome == "skipped" and prev is None:
        _outcomes[report.nodeid] = "skipped"


def pytest_sessionfinish(session, exitstatus):
    out = os.environ.get("GRIDRV_C20_OUT")
    if not out:
        return
    d = _sink.dump()
    d.update({"outcomes": _outcomes, "exitstatus": int(exitstatus), "monitor": _state["monitor"], "wrapped": _state["wrapped"], "rootdir": str(session.config.rootpath)})
    tmp = out + ".tmp"
    with open(tmp, "w") as fh:
        json.dump(d, fh, default=repr)
    os.replace(tmp, out)
