"""Monitors attached to grid.angular.AngularGrid (used by C02, C05, C12, C19)."""

from __future__ import annotations

import numpy as np

from gridrv import instrument
from gridrv.oracles import datafiles, sph

_exact_memo = {}


def install_resolution_monitor(ctx):
    """C12 post-condition on every AngularGrid construction anywhere in the process."""
    from grid.angular import AngularGrid

    def post(res, exc, args, kwargs):
        self = args[0]
        degree = args[1] if len(args) > 1 else kwargs.get("degree", 50)
        size = kwargs.get("size", None)
        method = str(kwargs.get("method", "lebedev")).lower()
        if method not in datafiles.DIRS:
            return
        req = f"{method}:" + (f"size={size}" if size is not None else f"degree={degree}")
        if size is not None:
            want = datafiles.resolve(method, size=int(size)) if _is_nonneg_int(size) else None
        else:
            want = datafiles.resolve(method, degree=int(degree)) if _is_nonneg_int(degree) else None
        if exc is not None:
            if isinstance(exc, ValueError) and want is None:
                ctx.check("reject-above-max", req, True)
            elif want is not None:
                ctx.fail("resolve-smallest-not-below", req, f"raised:{type(exc).__name__}", detail={"error": str(exc)[:200], "expected": want})
            return
        if want is None:
            ctx.fail("reject-above-max", req, "accepted", detail={"got": [int(self.degree), int(self.size)]})
            return
        got = (int(self.degree), int(self.size))
        ctx.check("resolve-smallest-not-below", req, got == want, sig=f"got-{'coarser' if got < want else 'finer'}", detail={"got": got, "expected": want})
        ctx.check("size-matches-points", req, self.points.shape == (got[1], 3) and self.weights.shape == (got[1],), detail={"shape": list(self.points.shape)})

    instrument.wrap_method(ctx, AngularGrid, "__init__", post, hook="AngularGrid.__init__")


def _is_nonneg_int(v):
    return isinstance(v, (int, np.integer)) and not isinstance(v, bool) and v >= 0


def check_exactness(ctx, grid_obj, method=None, tol=1e-9, memo=True):
    """C02 oracle on one constructed AngularGrid: unit sphere, size, all (l,m) up to degree."""
    method = method or grid_obj.method
    deg, n = int(grid_obj.degree), int(grid_obj.size)
    subj = f"{method}_{deg}_{n}"
    pts, w = grid_obj.points, grid_obj.weights
    key = (subj, hash(pts.tobytes()), hash(w.tobytes()))
    if memo and key in _exact_memo:
        return _exact_memo[key]
    rows = dict(datafiles.table(method))
    ctx.check("advertised-size", subj, rows.get(deg) == n and len(pts) == n, detail={"table_size": rows.get(deg), "len": len(pts)})
    ctx.check("on-unit-sphere", subj, float(np.abs(np.linalg.norm(pts, axis=1) - 1).max()), 1e-12)
    err = sph.moments(pts, w, deg)
    bad = np.where(~(err <= tol))[0]
    worst = float(np.nanmax(err)) if not np.isnan(err).all() else float("nan")
    if len(bad):
        first = int(bad[0])
        dec = int(np.floor(np.log10(worst))) if worst > 0 and np.isfinite(worst) else 99
        sig = f"first-bad-l={first}"
        ctx.check("exact-to-degree", subj, worst, tol, sig=sig, detail={"first_bad_l": first, "n_bad_l": int(len(bad)), "max_err": worst, "decade": dec, "err_l0": float(err[0])})
    else:
        ctx.check("exact-to-degree", subj, worst, tol)
    res = (len(bad) == 0, worst)
    if memo:
        _exact_memo[key] = res
    return res
