"""C06 monitors attached to grid.becke.BeckeWeights and grid.hirshfeld.HirshfeldWeights.

Post-conditions that can be decided from ONE call (they fire on every call in the process, also on the
incidental ones made by ``BeckeWeights.__call__`` chunking, ``compute_weights`` and ``MolGrid``):

* result has one finite value per point,
* every value lies in [-1e-12, 1 + 1e-12],
* a point that coincides exactly with a nucleus gets 1 when the weight asked for at that point is the one
  of that nucleus and 0 otherwise (which atom is asked for at which point is read from the documented
  meaning of ``select`` / ``pt_ind`` / ``indices``),
* Hirshfeld: the value equals the pro-atom density share computed by an own natural cubic spline
  (second-derivative formulation, tridiagonal Thomas solve in long double) of the shipped tables.

Group properties (sum over atoms, route equality, rigid motion, relabeling) need several calls and are decided
by the workload in ``gridrv.props.c06``.

The number of ``generate_weights`` calls made inside one ``BeckeWeights.__call__`` is counted from the hooks.
"""

from __future__ import annotations

import os

import numpy as np

from gridrv import core, instrument

TOL_UNIT = 1e-12  # slack of the [0,1] interval and of the nucleus values
TOL_SHARE_UNITS = 64.0  # Hirshfeld value vs reference share, in units of eps x conditioning of the share (observed <= 0.5)
TOL_SHARE_ABS = 1e-11  # the same, absolute, where all atoms are closer than 8 bohr
HIRSH_FAR = 16.0  # bohr: no shipped pro-atom spline is negative closer than 16.9 bohr to its nucleus

STATE = {"gw_run": 0, "last_call_chunks": None, "order": None}


# ------------------------------------------------------------------ helpers
def min_atom_distance(atcoords):
    m = len(atcoords)
    if m < 2:
        return np.inf
    d = np.linalg.norm(atcoords[:, None, :] - atcoords[None, :, :], axis=-1)
    d[np.diag_indices(m)] = np.inf
    return float(d.min())


def working_eps(points, atcoords):
    """Machine epsilon of the arithmetic the arguments imply (integer arrays are exact -> float64)."""
    eps = np.finfo(float).eps
    for a in (points, atcoords):
        dt = np.asarray(a).dtype
        if dt.kind == "f":
            eps = max(eps, float(np.finfo(dt).eps))
    return eps


def resolvable(points, atcoords):
    """True when the floating-point spacing of the coordinates is far below the smallest internuclear distance.

    Otherwise the computed distances |r-R_A|-|r-R_B| do not even obey the triangle inequality against
    |R_A-R_B| and nothing about the weights is decided (recorded as observation by the workload).  The spacing
    is the one of the arguments' own floating-point type (float32 arrays resolve much less than float64).
    """
    dmin = min_atom_distance(np.asarray(atcoords, dtype=float))
    if not np.isfinite(dmin):
        dmin = 1.0
    big = 0.0
    if len(points):
        big = max(big, float(np.max(np.abs(points))))
    big = max(big, float(np.max(np.abs(atcoords))))
    if not np.isfinite(big):
        return False
    spacing = float(np.spacing(big)) * working_eps(points, atcoords) / np.finfo(float).eps
    return spacing * 64.0 <= dmin


def owners_from_select(m, n, select, pt_ind):
    """Atom whose weight is requested at each of the n points (-1: none), from the documented arguments."""
    if select is None:
        select = np.arange(m)
    elif isinstance(select, (int, np.integer)):
        select = [int(select)]
    select = [int(s) for s in select]
    own = np.full(n, -1, dtype=int)
    if pt_ind is None or len(pt_ind) <= 2:
        if len(select) != 1:
            return None
        own[:] = select[0]
        return own
    if len(pt_ind) - 1 != len(select):
        return None
    for i, s in enumerate(select):
        a, b = int(pt_ind[i]), int(pt_ind[i + 1])
        own[max(a, 0) : max(b, 0)] = s
    return own


def owners_from_indices(n, indices):
    own = np.full(n, -1, dtype=int)
    for i in range(len(indices) - 1):
        own[int(indices[i]) : int(indices[i + 1])] = i
    return own


def _becke_post(ctx, subject, res, points, atcoords, owner, extra=None):
    points = np.asarray(points)
    atcoords = np.asarray(atcoords)
    n = len(points)
    det = dict(extra or {})
    det["natom"] = int(len(atcoords))
    ok_shape = isinstance(res, np.ndarray) and res.shape == (n,)
    ctx.check("one-value-per-point", subject, ok_shape, sig="wrong-shape", detail={"shape": getattr(res, "shape", None), "npoints": n, **det})
    if not ok_shape or n == 0:
        return
    dmin = min_atom_distance(np.asarray(atcoords, dtype=float))
    weps = working_eps(points, atcoords)
    tol_unit = TOL_UNIT if weps <= np.finfo(float).eps else 64.0 * weps
    sfx = ""
    if weps > np.finfo(float).eps:
        sfx = "-single"  # single-precision arguments: same clauses, recorded separately with their own slack
        ctx.count("hook:calls-with-single-precision-arguments")
    if dmin == 0.0:
        ctx.count("hook-undecided:coincident-atoms")
        return
    if not resolvable(points, atcoords):
        ctx.count("hook-undecided:beyond-float-resolution")
        return
    fin = np.isfinite(res)
    if not fin.all():
        k = int(np.argmin(fin))
        ctx.check("finite", subject, False, sig="nan" if np.isnan(res[k]) else "inf", detail={"point": points[k], "value": res[k], **det})
        return
    ctx.check("finite", subject, True)
    lo, hi = float(res.min()), float(res.max())
    viol = max(0.0, -lo, hi - 1.0)
    k = int(np.argmin(res)) if -lo >= hi - 1.0 else int(np.argmax(res))
    ctx.check("in-unit-interval" + sfx, subject, viol, tol_unit, sig="w<0" if -lo >= hi - 1.0 else "w>1", detail={"point": points[k], "value": res[k], **det})
    if owner is None:
        return
    # points that are exactly a nucleus
    eq = (points[:, None, :] == atcoords[None, :, :]).all(axis=-1)
    pi, aj = np.nonzero(eq)
    if len(pi) == 0:
        return
    own_mask = owner[pi] == aj
    if own_mask.any():
        dev = np.abs(res[pi[own_mask]] - 1.0)
        k = int(np.argmax(dev))
        ctx.check("own-nucleus-one" + sfx, subject, float(dev[k]), tol_unit, sig="w!=1", detail={"atom": int(aj[own_mask][k]), "value": float(res[pi[own_mask]][k]), **det})
    oth = ~own_mask
    if oth.any():
        dev = np.abs(res[pi[oth]])
        k = int(np.argmax(dev))
        ctx.check("other-nucleus-zero" + sfx, subject, float(dev[k]), tol_unit, sig="w!=0", detail={"at_nucleus": int(aj[oth][k]), "asked_atom": int(owner[pi[oth]][k]), "value": float(res[pi[oth]][k]), **det})


# ------------------------------------------------------------------ Hirshfeld reference
_spline_memo = {}


def _proatom_table(num):
    path = os.path.join(core.GRIDDIR, "data", "proatoms", f"a{int(num):03d}.npz")
    with np.load(path) as d:
        return np.array(d["r"], dtype=float), np.array(d["dn"], dtype=float)


def _natural_moments(x, y):
    """Second derivatives of the natural cubic spline through (x, y): Thomas algorithm in long double."""
    x = x.astype(np.longdouble)
    y = y.astype(np.longdouble)
    n = len(x)
    h = np.diff(x)
    mom = np.zeros(n, dtype=np.longdouble)
    if n < 3:
        return mom
    sub = h[:-1].copy()  # a_i, i=1..n-2
    diag = 2 * (h[:-1] + h[1:])
    sup = h[1:].copy()
    rhs = 6 * ((y[2:] - y[1:-1]) / h[1:] - (y[1:-1] - y[:-2]) / h[:-1])
    k = n - 2
    cp = np.zeros(k, dtype=np.longdouble)
    dp = np.zeros(k, dtype=np.longdouble)
    cp[0] = sup[0] / diag[0]
    dp[0] = rhs[0] / diag[0]
    for i in range(1, k):
        den = diag[i] - sub[i] * cp[i - 1]
        cp[i] = sup[i] / den
        dp[i] = (rhs[i] - sub[i] * dp[i - 1]) / den
    sol = np.zeros(k, dtype=np.longdouble)
    sol[-1] = dp[-1]
    for i in range(k - 2, -1, -1):
        sol[i] = dp[i] - cp[i] * sol[i + 1]
    mom[1:-1] = sol
    return mom


def _spline(num):
    key = int(num)
    if key not in _spline_memo:
        x, y = _proatom_table(key)
        n = len(x)
        mom = _natural_moments(x, y)
        # moments of the cardinal splines (data e_k): the spline is linear in the data, S(r) = sum_k L_k(r) y_k
        card = np.array([np.asarray(_natural_moments(x, np.eye(n)[k]), float) for k in range(n)]).T  # card[i, k]
        _spline_memo[key] = (x.astype(np.longdouble), y.astype(np.longdouble), mom, card)
    return _spline_memo[key]


def ref_proatom_density(num, r, with_scale=False):
    """Natural cubic spline of the shipped (r, dn) table at radii r (end pieces continued outside the table).

    ``with_scale``: also return sum_k |L_k(r)| |y_k| + magnitude of the terms of the left-anchored power form,
    i.e. the absolute condition of evaluating this spline in floating point (an implementation working in
    float64 cannot be expected to be closer than a few eps times this number).
    """
    x, y, mom, card = _spline(num)
    r = np.asarray(r, dtype=np.longdouble)
    i = np.clip(np.searchsorted(x, r, side="right") - 1, 0, len(x) - 2)
    h = x[i + 1] - x[i]
    a = x[i + 1] - r
    b = r - x[i]
    ca = a * (a - h) * (a + h) / (6 * h)
    cb = b * (b - h) * (b + h) / (6 * h)
    # form that is exact at the knots: linear interpolant + curvature correction vanishing at both ends
    val = (y[i] * a + y[i + 1] * b) / h + mom[i] * ca + mom[i + 1] * cb
    if not with_scale:
        return val
    ar = np.arange(len(r))
    scale = np.zeros(len(r))
    yabs = np.abs(np.asarray(y, float))
    for s0 in range(0, len(r), 4096):
        sl = slice(s0, s0 + 4096)
        ii = i[sl]
        br = np.asarray(ca[sl], float)[:, None] * card[ii, :] + np.asarray(cb[sl], float)[:, None] * card[ii + 1, :]
        k = ar[: len(ii)]
        br[k, ii] += np.asarray(a[sl] / h[sl], float)
        br[k, ii + 1] += np.asarray(b[sl] / h[sl], float)
        scale[sl] = np.abs(br) @ yabs
    c1 = mom[i] / 2
    c0 = (mom[i + 1] - mom[i]) / (6 * h)
    c2 = (y[i + 1] - y[i]) / h - h * (2 * mom[i] + mom[i + 1]) / 6
    local = np.abs(y[i]) + np.abs(c2 * b) + np.abs(c1 * b**2) + np.abs(c0 * b**3)
    # a relative error of a few eps in the distance itself moves the value by r |S'(r)| eps
    slope = c2 + 2 * c1 * b + 3 * c0 * b**2
    return val, scale + np.asarray(local, float) + 4.0 * np.asarray(np.abs(slope) * r, float)


def ref_hirshfeld(points, atcoords, atnums):
    """(M, N) reference pro-atom densities (long double) and their float64 evaluation condition scale."""
    points = np.asarray(points, dtype=float)
    out = np.zeros((len(atnums), len(points)), dtype=np.longdouble)
    scale = np.zeros((len(atnums), len(points)))
    for j, z in enumerate(atnums):
        d = points - np.asarray(atcoords[j], dtype=float)
        r = np.sqrt((d.astype(np.longdouble) ** 2).sum(axis=1))
        out[j], scale[j] = ref_proatom_density(int(z), r, with_scale=True)
    return out, scale


def spline_self_test():
    """The reference spline satisfies the defining equations of the natural cubic spline and interpolates its tables."""
    # a straight line has no curvature
    xs = np.array([0.0, 0.3, 1.0, 1.1, 2.5, 4.0])
    mom = _natural_moments(xs, 2.0 - 0.75 * xs)
    if float(np.max(np.abs(mom))) > 1e-12:
        raise core.MonitorError("Thomas solve wrong: straight line has curvature")
    # the moments satisfy h_{i-1} M_{i-1} + 2 (h_{i-1}+h_i) M_i + h_i M_{i+1} = 6 (slope_i - slope_{i-1}), M_0 = M_n = 0
    xs = np.sort(np.random.default_rng(5).uniform(0, 3, 9))
    ys = np.exp(-xs) * np.cos(3 * xs)
    mom = np.asarray(_natural_moments(xs, ys), float)
    h = np.diff(xs)
    res = h[:-1] * mom[:-2] + 2 * (h[:-1] + h[1:]) * mom[1:-1] + h[1:] * mom[2:] - 6 * ((ys[2:] - ys[1:-1]) / h[1:] - (ys[1:-1] - ys[:-2]) / h[:-1])
    if float(np.max(np.abs(res))) > 1e-10 or mom[0] != 0 or mom[-1] != 0:
        raise core.MonitorError("Thomas solve does not satisfy the spline equations")
    for z in (1, 6, 7, 8):
        x, y = _proatom_table(z)
        if not (np.all(np.diff(x) > 0) and np.all(y > 0)):
            raise core.MonitorError(f"pro-atom table of Z={z} is not a positive density on increasing radii")
        v = np.asarray(ref_proatom_density(z, x), float)
        if not np.array_equal(v, y):
            raise core.MonitorError(f"reference spline does not interpolate table of Z={z}")
        # value and slope continuous across interior knots
        mid = x[5:60]
        e = 1e-6 * mid
        left = np.asarray(ref_proatom_density(z, mid - e), float)
        right = np.asarray(ref_proatom_density(z, mid + e), float)
        slope_jump = np.abs((y[5:60] - left) - (right - y[5:60])) / np.abs(y[5:60])
        if not np.all(slope_jump < 1e-6):
            raise core.MonitorError(f"reference spline not smooth for Z={z}")


def _hirshfeld_post(ctx, res, points, atcoords, atnums, indices):
    subject = "HirshfeldWeights.__call__"
    prec = working_eps(points, atcoords) / np.finfo(float).eps  # 1 unless the arguments are single precision
    points = np.asarray(points, dtype=float)
    atcoords = np.asarray(atcoords, dtype=float)
    n = len(points)
    ok_shape = isinstance(res, np.ndarray) and res.shape == (n,)
    ctx.check("one-value-per-point", subject, ok_shape, sig="wrong-shape", detail={"shape": getattr(res, "shape", None), "npoints": n})
    if not ok_shape or n == 0:
        return
    own = owners_from_indices(n, indices)
    covered = own >= 0
    if not covered.any():
        return
    rho, scale = ref_hirshfeld(points, atcoords, atnums)  # (M, N)
    tot = rho.sum(axis=0)
    cond_scale = scale.sum(axis=0)
    dist = np.linalg.norm(points[None, :, :] - atcoords[:, None, :], axis=-1)  # (M, N)
    far = dist.max(axis=0) > HIRSH_FAR
    idx = np.nonzero(covered)[0]
    w = res[idx]
    region = np.where(far[idx], "far", "near")
    fin = np.isfinite(w)
    if not fin.all():
        k = int(np.argmin(fin))
        ctx.check("hirshfeld-finite", subject, False, sig=f"nonfinite:{region[k]}", detail={"point": points[idx[k]], "value": w[k], "atnums": list(map(int, atnums))})
    else:
        ctx.check("hirshfeld-finite", subject, True)
    # bounds, separately for the two regions so that the failure signature says where it happens
    for reg in ("near", "far"):
        sel = (region == reg) & fin
        if not sel.any():
            continue
        ww = w[sel]
        lo, hi = float(ww.min()), float(ww.max())
        viol = max(0.0, -lo, hi - 1.0)
        k = int(np.argmin(ww)) if -lo >= hi - 1.0 else int(np.argmax(ww))
        p = points[idx[sel][k]]
        ctx.check(
            "hirshfeld-in-unit-interval",
            subject,
            viol,
            TOL_UNIT,
            sig=f"outside-unit-interval:{reg}",
            detail={"point": p, "value": float(ww[k]), "atnums": list(map(int, atnums)), "dist_to_atoms": np.linalg.norm(atcoords - p, axis=1)[:8], "asked_atom": int(own[idx[sel][k]])},
        )
    # equality with the reference share, in units of the float64 conditioning of the share:
    # |w - w_ref| <= K eps (sum_B scale_B / |sum_B rho_B|) (1 + |w_ref|)   with scale_B from the cardinal splines
    with np.errstate(all="ignore"):
        share = np.asarray(rho[own[idx], idx] / tot[idx], float)
        unit = prec * np.finfo(float).eps * cond_scale[idx] / np.abs(np.asarray(tot[idx], float)) * (1.0 + np.abs(share))
    good = np.isfinite(share) & np.isfinite(unit) & (unit > 0) & fin
    if good.any():
        dev = np.abs(w[good] - share[good]) / unit[good]
        k = int(np.argmax(dev))
        ctx.check(
            "hirshfeld-equals-proatom-share",
            subject,
            float(dev[k]),
            TOL_SHARE_UNITS,
            sig=f"differs:{region[good][k]}",
            detail={"point": points[idx[good][k]], "value": float(w[good][k]), "reference": float(share[good][k]), "abs_diff": float(abs(w[good][k] - share[good][k])), "unit": float(unit[good][k]), "atnums": list(map(int, atnums))},
        )
        # plain absolute comparison where every pro-atom value is well conditioned (all atoms closer than 8 bohr)
        close = dist.max(axis=0)[idx][good] < 8.0
        if close.any() and prec == 1.0:
            ctx.check("hirshfeld-equals-proatom-share-abs", subject, float(np.max(np.abs(w[good][close] - share[good][close]))), TOL_SHARE_ABS, sig="differs:near")


# ------------------------------------------------------------------ install
def reset_run():
    STATE["gw_run"] = 0


def install(ctx):
    from grid.becke import BeckeWeights
    from grid.hirshfeld import HirshfeldWeights

    def info(self):
        return {"order": int(getattr(self, "_order", -1))}

    def post_generate(res, exc, args, kwargs):
        STATE["gw_run"] += 1
        if exc is not None:
            return
        self, points, atcoords, atnums = args[0], args[1], args[2], args[3]
        own = owners_from_select(len(atcoords), len(points), kwargs.get("select"), kwargs.get("pt_ind"))
        _becke_post(ctx, "BeckeWeights.generate_weights", res, points, atcoords, own, {**info(self), "atnums": np.asarray(atnums)[:12]})

    def post_atom(res, exc, args, kwargs):
        if exc is not None:
            return
        self, points, atcoords, atnums = args[0], args[1], args[2], args[3]
        select = args[4] if len(args) > 4 else kwargs.get("select")
        own = np.full(len(points), int(select), dtype=int)
        _becke_post(ctx, "BeckeWeights.compute_atom_weight", res, points, atcoords, own, {**info(self), "atnums": np.asarray(atnums)[:12]})

    def post_compute(res, exc, args, kwargs):
        if exc is not None:
            return
        self, points, atcoords, atnums = args[0], args[1], args[2], args[3]
        own = owners_from_select(len(atcoords), len(points), kwargs.get("select"), kwargs.get("pt_ind"))
        _becke_post(ctx, "BeckeWeights.compute_weights", res, points, atcoords, own, {**info(self), "atnums": np.asarray(atnums)[:12]})

    def post_call(res, exc, args, kwargs):
        nchunks = STATE["gw_run"]
        STATE["gw_run"] = 0
        STATE["last_call_chunks"] = nchunks
        if exc is not None:
            return
        self, points, atcoords, atnums = args[0], args[1], args[2], args[3]
        indices = args[4] if len(args) > 4 else kwargs.get("indices")
        ctx.count("call-chunks:" + ("1" if nchunks <= 1 else "2-4" if nchunks < 5 else "5-19" if nchunks < 20 else ">=20"))
        if nchunks >= 2:
            ctx.hit("BeckeWeights.__call__:chunks>=2")
        if nchunks >= 5:
            ctx.hit("BeckeWeights.__call__:chunks>=5")
        own = owners_from_indices(len(points), indices)
        _becke_post(ctx, "BeckeWeights.__call__", res, points, atcoords, own, {**info(self), "chunks": nchunks, "atnums": np.asarray(atnums)[:12]})

    def post_hirsh(res, exc, args, kwargs):
        if exc is not None:
            return
        points, atcoords, atnums = args[1], args[2], args[3]
        indices = args[4] if len(args) > 4 else kwargs.get("indices")
        _hirshfeld_post(ctx, res, points, atcoords, atnums, indices)

    instrument.wrap_method(ctx, BeckeWeights, "generate_weights", post_generate, hook="BeckeWeights.generate_weights")
    instrument.wrap_method(ctx, BeckeWeights, "compute_atom_weight", post_atom, hook="BeckeWeights.compute_atom_weight")
    instrument.wrap_method(ctx, BeckeWeights, "compute_weights", post_compute, hook="BeckeWeights.compute_weights")
    instrument.wrap_method(ctx, BeckeWeights, "__call__", post_call, hook="BeckeWeights.__call__")
    instrument.wrap_method(ctx, HirshfeldWeights, "__call__", post_hirsh, hook="HirshfeldWeights.__call__")
