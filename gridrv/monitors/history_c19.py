"""C19 history monitor: absolute executable model, unique sentinels, cache walk.

The model is absolute (it never depends on what an earlier call returned):

* an angular grid (method, degree, size) IS the shipped file (``datafiles.pristine_sphere``; x 4 pi where the
  class applies it) - compared BIT-IDENTICALLY;
* an atomic grid IS, per shell, centre + r_i * (pristine sphere) Q with Q = I when ``rotate == 0`` and an orthogonal Q
  (orthogonal Procrustes) otherwise, weights w_i r_i^2 W;
* a radial transform whose scale is b IS a fresh instance of the same class constructed with that b;
* the Coulomb parameter table IS the JSON file.

Every in-place edit performed by the workload writes a UNIQUE SENTINEL value (history id, operation counter), kept
in a per-process registry, so that a corrupted later observation names the write it saw (``decode``).
The module also walks whatever module-level caches exist (discovered by attribute name; optional evidence) and keeps
digests of the other module-level containers of the package.
"""

from __future__ import annotations

import hashlib
import pickle
import sys

import numpy as np

from gridrv import instrument
from gridrv.oracles import datafiles

FOUR_PI = 4 * np.pi
SENT_BASE = 2**40  # sentinels are -(SENT_BASE + 64*hid + op): exact float64 integers, far from any legitimate value
TOL_W = 1e-13  # relative, element-wise (weights are pure products)
TOL_P = 1e-12  # absolute / (1 + |centre| + r)

_registry = {}  # int(-value) -> (hid, op, target)
_pristine = {}
_state = {"caches": None, "constants": None, "const_digest": None}


# ---------------------------------------------------------------------------------------------- sentinels
def sentinel(hid, op, target):
    """Unique value for write number ``op`` of history ``hid`` (registered for later naming)."""
    k = SENT_BASE + 64 * int(hid) + int(op)
    _registry[k] = (int(hid), int(op), str(target))
    return -float(k)


def decode(arr, scales=(1.0,)):
    """Name the write a corrupted array shows: returns dict(sentinel, hist, op, target, scale) or None.

    ``scales`` lists the factors the library may legitimately have applied to a cached value before handing it out
    (4 pi, shell radius, w_i r_i^2 ...).
    """
    a = np.asarray(arr, dtype=float).ravel()
    with np.errstate(invalid="ignore"):
        big = a[np.abs(a) > 1e6]
    if big.size == 0:
        return None
    big = np.unique(big[np.isfinite(big)])
    # exact pass first: a value that IS a registered sentinel names its write unambiguously (a sentinel plus a
    # small legitimate offset could otherwise round to the neighbouring sentinel of another operation)
    for v in big[:4096]:
        if v == np.rint(v) and abs(v) < 2**52 and int(-v) in _registry:
            h, o, t = _registry[int(-v)]
            return {"sentinel": float(v), "hist": h, "op": o, "target": t, "scale": 1.0}
    big = big[:16]
    for v in big:
        for s in scales:
            if not s or not np.isfinite(s):
                continue
            q = -v / s
            k = int(np.rint(q)) if abs(q) < 2**52 else 0
            if k in _registry and abs(q - k) < 1e-3:
                h, o, t = _registry[k]
                return {"sentinel": -float(k), "hist": h, "op": o, "target": t, "scale": float(s)}
    return {"sentinel": None, "unnamed_large_value": float(big[0])}


def corruption_sig(arr, ref, scales=(1.0,)):
    """Quantised failure signature + witness for an array that differs from the model."""
    arr = np.asarray(arr)
    if arr.shape != np.shape(ref):
        return "shape-differs-from-model", {"shape": list(arr.shape), "model_shape": list(np.shape(ref))}
    d = decode(arr, scales)
    if d is not None and d.get("sentinel") is not None:
        return "saw-edit-of:" + d["target"], d
    with np.errstate(invalid="ignore", divide="ignore"):
        ratio = np.asarray(arr, dtype=float).ravel() / np.asarray(ref, dtype=float).ravel()
    ratio = ratio[np.isfinite(ratio)]
    det = {"n_differ": int(np.sum(np.asarray(arr) != np.asarray(ref)))}
    if d is not None:
        det.update(d)
        return "unnamed-large-value", det
    if ratio.size and np.allclose(ratio, ratio[0], rtol=1e-9) and abs(ratio[0] - 1) > 1e-9:
        det["ratio"] = float(ratio[0])
        for name, val in (("4pi", FOUR_PI), ("1/4pi", 1 / FOUR_PI), ("(4pi)^2", FOUR_PI**2)):
            if abs(ratio[0] / val - 1) < 1e-9:
                return "scaled-by-" + name, det
        return "scaled-by-constant", det
    if np.asarray(arr, dtype=float).size and float(np.nanmax(np.abs(np.asarray(arr, dtype=float) - np.asarray(ref, dtype=float)))) < 1e-9:
        return "differs-in-last-bits", det
    return "values-differ-no-sentinel", det


# ---------------------------------------------------------------------------------------------- angular model
def pristine(method, degree, size):
    """(points, weights as the class hands them out) of the shipped file; None when there is no such file."""
    key = (method, int(degree), int(size))
    if key not in _pristine:
        try:
            p, w = datafiles.pristine_sphere(method, key[1], key[2], scaled=True)
            p.setflags(write=False)
            w.setflags(write=False)
            _pristine[key] = (p, w)
        except FileNotFoundError:
            _pristine[key] = None
    return _pristine[key]


def same_bits(a, b):
    a, b = np.asarray(a), np.asarray(b)
    return a.shape == b.shape and a.dtype == b.dtype and bool(np.array_equal(a, b, equal_nan=True))


def check_angular(ctx, clause, subj, g, method, degree, size, which=("points", "weights"), extra=None):
    """Bit-identity of an AngularGrid's arrays with the shipped file. Returns True when all compared arrays agree."""
    ref = pristine(method, degree, size)
    if ref is None:
        ctx.fail(clause, subj, "no-shipped-file-for-reported-degree-size", detail={"degree": int(degree), "size": int(size)})
        return False
    ok = True
    for name, r in zip(("points", "weights"), ref):
        if name not in which:
            continue
        got = getattr(g, name)
        if same_bits(got, r):
            ctx.check(clause, f"{subj}.{name}", True)
            continue
        ok = False
        scales = (1.0, FOUR_PI, 1 / FOUR_PI)
        sig, det = corruption_sig(got, r, scales)
        det.update({"degree": int(degree), "size": int(size)})
        if extra:
            det.update(extra)
        ctx.check(clause, f"{subj}.{name}", False, sig=sig, detail=det)
    return ok


def install_angular_monitor(ctx):
    """Post-condition on EVERY AngularGrid construction in the process (also the incidental ones made by
    AtomGrid / get_shell_grid): the new object's arrays are the shipped file of its reported (method, degree, size)."""
    from grid.angular import AngularGrid

    def post(res, exc, args, kwargs):
        if exc is not None:
            return
        g = args[0]
        m = str(g.method)
        if m not in datafiles.DIRS:
            return
        check_angular(ctx, "angular-equals-shipped", f"AngularGrid.__init__[{m}]", g, m, int(g.degree), int(g.size))

    instrument.wrap_method(ctx, AngularGrid, "__init__", post, hook="AngularGrid.__init__")


# ---------------------------------------------------------------------------------------------- atomic model
def check_shell_arrays(ctx, clause, subj, pts, w, method, degree, size, r, wfac, centre, rotated, detail=None, do_points=True, do_weights=True):
    """One shell: pts == centre + r * P Q, w == wfac * W (P, W pristine)."""
    ref = pristine(method, degree, size)
    det = dict(detail or {})
    det.update({"degree": int(degree), "size": int(size), "r": float(r)})
    if ref is None:
        ctx.fail(clause, subj, "no-shipped-file-for-reported-degree-size", detail=det)
        return False
    P, W = ref
    pts, w = np.asarray(pts), np.asarray(w)
    if pts.shape != P.shape or w.shape != W.shape:
        det.update({"shape": list(pts.shape), "model_shape": list(P.shape)})
        ctx.check(clause, subj + ".points", False, sig="shape-differs-from-model", detail=det)
        return False
    c = np.zeros(3) if centre is None else np.asarray(centre, dtype=float)
    cn = float(np.linalg.norm(c))
    ok = True
    # weights
    wref = wfac * W
    if not do_weights:
        mw = 0.0
    else:
        with np.errstate(invalid="ignore", divide="ignore"):
            mw = float(np.max(np.abs(w - wref) / np.abs(wref))) if np.all(wref != 0) else (0.0 if np.array_equal(w, wref) else float("inf"))
    if not do_weights:
        pass
    elif not mw <= TOL_W:
        sig, d2 = corruption_sig(w, wref, (1.0, FOUR_PI, wfac, wfac * FOUR_PI, wfac / FOUR_PI))
        d2.update(det)
        ctx.check(clause, subj + ".weights", mw, TOL_W, sig=sig, detail=d2)
        ok = False
    else:
        ctx.check(clause, subj + ".weights", mw, TOL_W)
    # points
    if not do_points:
        return ok
    X = pts - c
    if r == 0.0:
        mp = float(np.max(np.abs(X))) if X.size else 0.0
    else:
        if rotated:
            with np.errstate(invalid="ignore"):
                M = P.T @ X
            if not np.all(np.isfinite(M)):
                mp = float("inf")
            else:
                U, _, Vt = np.linalg.svd(M)
                mp = float(np.max(np.abs(X - r * (P @ (U @ Vt))))) / (1.0 + cn + r)
        else:
            mp = float(np.max(np.abs(pts - (c + r * P)))) / (1.0 + cn + r)
    if not mp <= TOL_P:
        sig, d2 = corruption_sig(X, r * P, (1.0, r))
        d2.update(det)
        d2["rotated"] = bool(rotated)
        ctx.check(clause, subj + ".points", mp, TOL_P, sig=sig, detail=d2)
        ok = False
    else:
        ctx.check(clause, subj + ".points", mp, TOL_P)
    return ok


def check_atom_arrays(ctx, clause, subj, pts, w, indices, spec, which=("points", "weights")):
    """Whole atomic grid given as raw arrays against spec = dict(method, rows[(deg,size)], r, wr, centre, rotate)."""
    rows, r, wr = spec["rows"], spec["r"], spec["wr"]
    n = len(rows)
    want_ind = np.concatenate([[0], np.cumsum([s for _, s in rows])])
    pts, w = np.asarray(pts), np.asarray(w)
    if indices is not None and not np.array_equal(np.asarray(indices), want_ind):
        ctx.check(clause, subj + ".indices", False, sig="shell-sizes-differ-from-model", detail={"got": np.asarray(indices)[:8], "want": want_ind[:8]})
        return False
    if pts.shape != (want_ind[-1], 3) or w.shape != (want_ind[-1],):
        ctx.check(clause, subj + ".points", False, sig="shape-differs-from-model", detail={"shape": list(pts.shape), "model_size": int(want_ind[-1])})
        return False
    ok = True
    for i in range(n):
        a, b = int(want_ind[i]), int(want_ind[i + 1])
        d, s = rows[i]
        ri = float(r[i])
        ok &= check_shell_arrays(ctx, clause, subj, pts[a:b], w[a:b], spec["method"], d, s, ri, float(wr[i]) * ri**2, spec.get("centre"), bool(spec.get("rotate")), detail={"shell": i}, do_points="points" in which, do_weights="weights" in which)
    return ok


def model_weights(spec):
    """Concatenated model weights w_i r_i^2 W of an atomic grid."""
    out = []
    for (d, s), ri, wi in zip(spec["rows"], spec["r"], spec["wr"]):
        out.append(float(wi) * float(ri) ** 2 * pristine(spec["method"], d, s)[1])
    return np.concatenate(out)


def model_weight_sums(spec):
    """sum_j W_j per shell of the model (for integrate)."""
    out = []
    for (d, s), ri, wi in zip(spec["rows"], spec["r"], spec["wr"]):
        ref = pristine(spec["method"], d, s)
        out.append(float(wi) * float(ri) ** 2 * float(np.sum(ref[1])))
    return np.array(out)


# ---------------------------------------------------------------------------------------------- cache walk
def discover(force=False):
    """Module-level caches (attribute name contains CACHE) and other module-level containers of grid.*"""
    if _state["caches"] is not None and not force:
        return _state["caches"]
    caches, consts = [], []
    for mname, m in list(sys.modules.items()):
        if m is None or not (mname == "grid" or mname.startswith("grid.")) or ".tests" in mname or mname == "grid":
            continue
        for attr, val in list(vars(m).items()):
            if attr.startswith("__") or callable(val) or isinstance(val, type(sys)):
                continue
            home = getattr(val, "__module__", None)
            if "CACHE" in attr.upper():
                if (mname, attr) not in caches:
                    caches.append((mname, attr))
            elif isinstance(val, (dict, list, set, np.ndarray)):
                # only where the object is defined (re-exports via `from x import *` share the object)
                if not any(id(getattr(sys.modules[mm], aa, None)) == id(val) for mm, aa in consts):
                    consts.append((mname, attr))
    _state["caches"] = caches
    _state["constants"] = consts
    _state["const_digest"] = {k: _digest(getattr(sys.modules[k[0]], k[1])) for k in consts}
    return caches


def _digest(obj):
    try:
        if isinstance(obj, np.ndarray):
            raw = obj.tobytes() + str(obj.shape).encode()
        else:
            raw = pickle.dumps(obj, protocol=4)
    except Exception:  # noqa
        raw = repr(obj).encode()
    return hashlib.blake2b(raw, digest_size=8).hexdigest()


_CACHE_METHOD = {v + "_CACHE": k for k, v in datafiles.CODE_TABLES.items()}


def walk_caches(ctx):
    """Structural invariant at a quiescent point (evidence only): every discovered cache entry equals the shipped
    data it was read from.  Returns the list of corrupt angular entries [(method, degree, size)] so that the caller
    can aim an API-level (deciding) observation at them."""
    corrupt = []
    for mname, attr in discover():
        val = getattr(sys.modules[mname], attr, None)
        if val is None:
            ctx.count("cache-walk:empty-or-absent")
            continue
        if attr in _CACHE_METHOD and isinstance(val, dict):
            method = _CACHE_METHOD[attr]
            rows = dict(datafiles.table(method))
            for key, entry in list(val.items()):
                try:
                    deg = int(key)
                    size = rows.get(deg)
                    p, w = entry
                    if size is None:
                        ctx.count("cache-walk:key-is-not-a-supported-degree")
                        continue
                    rp, rw = datafiles_unscaled(method, deg, size)
                    good = np.shape(p) == rp.shape and np.array_equal(p, rp) and np.shape(w) == rw.shape and np.array_equal(w, rw)
                except Exception:  # noqa - layout not understood: not ours to decide
                    ctx.count("cache-walk:entry-layout-not-understood")
                    continue
                ctx.count("cache-walk:angular-entries-compared")
                if not good:
                    ctx.count("cache-walk:angular-entries-corrupt")
                    corrupt.append((method, deg, size))
        elif "gauss" in attr.lower() and isinstance(val, dict):
            ref = datafiles.gauss_params()
            good = True
            try:
                for sym, row in ref.items():
                    got = val.get(sym)
                    for k2, v2 in row.items():
                        if not np.array_equal(np.asarray(got[k2], dtype=float), np.asarray(v2, dtype=float)):
                            good = False
            except Exception:  # noqa
                ctx.count("cache-walk:entry-layout-not-understood")
                continue
            ctx.count("cache-walk:coulomb-table-compared")
            if not good:
                ctx.count("cache-walk:coulomb-table-corrupt")
                corrupt.append(("coulomb", None, None))
        else:
            ctx.count("cache-walk:unknown-cache-not-compared:" + attr)
    return corrupt


_unscaled = {}


def datafiles_unscaled(method, deg, size):
    key = (method, deg, size)
    if key not in _unscaled:
        _unscaled[key] = datafiles.pristine_sphere(method, deg, size, scaled=False)
    return _unscaled[key]


def changed_constants():
    """Names of module-level containers (not caches) whose content changed since ``discover``."""
    discover()
    out = []
    for k in _state["constants"]:
        m = sys.modules.get(k[0])
        if m is None or not hasattr(m, k[1]):
            out.append(f"{k[0]}.{k[1]}:removed")
            continue
        if _digest(getattr(m, k[1])) != _state["const_digest"][k]:
            out.append(f"{k[0]}.{k[1]}")
    return out


def clear_cache(name):
    """User-level action ``grid.angular.<NAME>_CACHE.clear()`` (public module attribute; the repository's own test
    does it).  Returns False when no such cache exists."""
    m = sys.modules.get("grid.angular")
    val = getattr(m, name, None) if m else None
    if isinstance(val, dict):
        val.clear()
        return True
    return False


# ---------------------------------------------------------------------------------------------- introspection
def _is_gridlike(v):
    return hasattr(v, "points") and hasattr(v, "weights") and not isinstance(v, np.ndarray)


def public_arrays(obj, depth=3, prefix=""):
    """Every mutable array-valued PUBLIC attribute of ``obj`` found by introspection (properties and public instance
    attributes): name -> ndarray or list of numbers.  Grid-valued attributes (``rgrid``) and lists of grids (``atgrids``)
    are followed ``depth`` levels (``rgrid.points``, ``atgrids[0].weights``, ``atgrids[1].rgrid.points``): a walk of the
    public attribute graph, nothing is assumed about the classes."""
    import inspect

    out = {}
    names = set(n for n in dir(type(obj)) if not n.startswith("_"))
    names |= set(n for n in getattr(obj, "__dict__", {}) if not n.startswith("_"))
    for n in sorted(names):
        try:
            static = inspect.getattr_static(type(obj), n)
        except AttributeError:
            static = None
        if static is not None and not isinstance(static, property):
            continue  # methods, class attributes
        try:
            v = getattr(obj, n)
        except Exception:  # noqa - a property that cannot be evaluated now
            continue
        if isinstance(v, np.ndarray):
            if v.size:
                out[prefix + n] = v
        elif isinstance(v, list) and v and all(isinstance(e, (int, float, np.integer, np.floating)) for e in v):
            out[prefix + n] = v
        elif depth > 0 and _is_gridlike(v):
            out.update(public_arrays(v, depth - 1, prefix + n + "."))
        elif depth > 0 and isinstance(v, (list, tuple)) and v and all(_is_gridlike(e) for e in v):
            for i, e in enumerate(v[:3]):
                out.update(public_arrays(e, depth - 1, f"{prefix}{n}[{i}]."))
    return out


def snapshot_public(obj):
    """Copies of every discovered public array / list of ``obj`` (for same-arguments-same-result comparisons)."""
    return {k: (np.array(v) if isinstance(v, np.ndarray) else list(v)) for k, v in public_arrays(obj).items()}


def compare_public(obj, snap):
    """Names of discovered public arrays that differ (bitwise, NaN = NaN) from the snapshot, with the first differing pair."""
    cur = public_arrays(obj)
    bad = []
    for k, ref in snap.items():
        got = cur.get(k)
        if got is None:
            bad.append((k, None, ref))
        elif isinstance(ref, list):
            if list(got) != ref:
                bad.append((k, np.asarray(got, dtype=float), np.asarray(ref, dtype=float)))
        elif not same_bits(np.asarray(got), ref):
            bad.append((k, np.asarray(got), ref))
    return bad


# ---------------------------------------------------------------------------------------------- cold-process reference
_cold = {}

_COLD_SCRIPT = r"""
import sys, json, hashlib, warnings
warnings.simplefilter("ignore")
from grid.angular import AngularGrid
out = []
for m, d, s in json.loads(sys.stdin.read()):
    g = AngularGrid(size=s, method=m, cache=False)   # nothing is ever cached in this process: every request is cold
    out.append([m, d, s, int(g.degree), int(g.size), hashlib.blake2b(g.points.tobytes(), digest_size=16).hexdigest(), hashlib.blake2b(g.weights.tobytes(), digest_size=16).hexdigest()])
print("COLD" + json.dumps(out))
"""


def cold_reference(rows):
    """What a COLD process (fresh interpreter, empty caches, cache=False throughout) returns for each supported row
    requested by size: (method, degree, size) -> (reported degree, reported size, digest(points), digest(weights))."""
    import json
    import os
    import subprocess

    from gridrv import core

    todo = [list(r) for r in rows if tuple(r) not in _cold]
    if todo:
        env = dict(os.environ)
        env["PYTHONPATH"] = core.SRC
        env["PYTHONDONTWRITEBYTECODE"] = "1"
        p = subprocess.run([sys.executable, "-c", _COLD_SCRIPT], input=json.dumps(todo), capture_output=True, text=True, env=env, timeout=600)
        line = [ln for ln in p.stdout.splitlines() if ln.startswith("COLD")]
        if p.returncode != 0 or not line:
            raise RuntimeError("cold-process reference failed: " + (p.stderr or p.stdout)[-300:])
        for m, d, s, gd, gs, hp, hw in json.loads(line[0][4:]):
            _cold[(m, d, s)] = (gd, gs, hp, hw)
    return _cold


def check_request(ctx, subj, g, method, degree, size, detail=None):
    """A constructed AngularGrid against the size/degree-resolved model row: reported degree/size, shipped data,
    and the cold-process reference."""
    det = dict(detail or {})
    got = (int(g.degree), int(g.size), int(np.asarray(g.points).shape[0]))
    det.update({"reported": list(got), "model": [int(degree), int(size)]})
    sig = None
    if got != (int(degree), int(size), int(size)):
        sig = "reports-other-row" if got[1] == got[2] else "reported-degree-does-not-match-its-points"
    ctx.check("angular-reports-resolved-degree-size", subj, sig is None, sig=sig, detail=det)
    ok = check_angular(ctx, "angular-equals-shipped", subj, g, method, degree, size, extra=det)
    ref = _cold.get((method, int(degree), int(size)))
    if ref is not None:
        import hashlib

        hp = hashlib.blake2b(np.ascontiguousarray(g.points).tobytes(), digest_size=16).hexdigest()
        hw = hashlib.blake2b(np.ascontiguousarray(g.weights).tobytes(), digest_size=16).hexdigest()
        same = (int(g.degree), int(g.size), hp, hw) == tuple(ref)
        sig = None
        if not same:
            sig = "differs-from-cold-process:" + ("degree-size" if (int(g.degree), int(g.size)) != tuple(ref[:2]) else "data")
        ctx.check("angular-equals-cold-process", subj, same, sig=sig, detail=det)
    else:
        ctx.count("cold-reference-not-available-for-row")
    return ok


# ---------------------------------------------------------------------------------------------- cold molecular reference
_cold_mol = {}

_COLD_MOL_SCRIPT = r"""
import sys, json, hashlib, warnings
warnings.simplefilter("ignore")
import numpy as np
from grid.molgrid import MolGrid
out = []
for i, (ctor, atnums, coords, kw) in enumerate(json.loads(sys.stdin.read())):
    m = getattr(MolGrid, ctor)(np.array(atnums), np.array(coords, dtype=float), **kw)   # rgrid=None: default radial grids
    h = lambda a: hashlib.blake2b(np.ascontiguousarray(a).tobytes(), digest_size=16).hexdigest()
    out.append([i, int(m.size), h(m.points), h(m.weights)])
print("COLD" + json.dumps(out))
"""


def mol_kwargs(cfg):
    """Keyword arguments of a default-radial-grid molecular constructor configuration (JSON-able form -> call form)."""
    ctor, atnums, coords, kw = cfg
    return dict(kw)


def cold_mol_reference(configs):
    """(size, digest(points), digest(weights)) of each molecular configuration as built by a COLD process."""
    import json
    import os
    import subprocess

    from gridrv import core

    if not _cold_mol:
        env = dict(os.environ)
        env["PYTHONPATH"] = core.SRC
        env["PYTHONDONTWRITEBYTECODE"] = "1"
        p = subprocess.run([sys.executable, "-c", _COLD_MOL_SCRIPT], input=json.dumps(configs), capture_output=True, text=True, env=env, timeout=600)
        line = [ln for ln in p.stdout.splitlines() if ln.startswith("COLD")]
        if p.returncode != 0 or not line:
            raise RuntimeError("cold-process molecular reference failed: " + (p.stderr or p.stdout)[-300:])
        for i, size, hp, hw in json.loads(line[0][4:]):
            _cold_mol[i] = (size, hp, hw)
    return _cold_mol


def mol_digest(mol):
    h = lambda a: hashlib.blake2b(np.ascontiguousarray(a).tobytes(), digest_size=16).hexdigest()  # noqa: E731
    return (int(mol.size), h(mol.points), h(mol.weights))
