"""C04 post-condition attached to ``BaseTransform.transform_1d_grid`` (fires on EVERY call in the process).

For the call ``new = tf.transform_1d_grid(old)`` it decides, without using ``tf.deriv``:

* ``points-mapped``      new.points == tf.transform(old.points) (bit for bit, NaN pattern included) and agrees with the
                         long-double evaluation of the implemented map;
* ``weights-magnitude``  |new.weights| == |J| * |old.weights| with |J| from ``numdiff`` (long-double Chebyshev
                         differentiation of the implemented forward map), per node, rel 1e-6 + 100 x error estimate;
                         nodes whose numerical Jacobian is not decidable (node on a singular end, pole inside the fit)
                         are counted as undecided;
* ``weights-sign``       old weight > 0  =>  new weight >= 0 (also for decreasing maps);
* ``domain-image``       new.domain has no NaN end, is ascending, equals the sorted image of the old domain ends under
                         the implemented map, and contains every new node.

Subjects are ``<transform description>|src=(<lo>,<hi>)`` with the source-domain ends classified as -1, 0, 1, inf or
``finite`` - never random numbers.
"""

from __future__ import annotations

import numpy as np

from gridrv import instrument
from gridrv.oracles import numdiff as nd
from gridrv.oracles import transforms_ref

REL_W = 1e-9
EPS32 = float(np.finfo(np.float32).eps)
SHRINK = (1.0, 0.3, 0.1, 0.03, 0.01)
NS = (33, 29, 33, 29, 33)


def describe(tf):
    """Class name (+ parameter class for the exponent: integer / non-integer k, m), wrapper shown explicitly."""
    name = type(tf).__name__
    if name == "InverseRTransform":
        # wrappers of wrappers are labelled by their reduced form (an even number of inversions is the base map, an odd number its
        # inverse): the same documented behaviour, hence the same subject; the depth goes into the counters
        depth, t = 0, tf
        while type(t).__name__ == "InverseRTransform" and depth < 16:
            depth, t = depth + 1, t._tfm
        base = describe(t)
        return base if depth % 2 == 0 else f"InverseRTransform({base})"
    for attr in ("k", "m"):
        if name in ("KnowlesRTransform", "HandyRTransform", "HandyModRTransform") and hasattr(tf, attr):
            if not float(getattr(tf, attr)).is_integer():
                name += f":noninteger-{attr}"
    return name


def _cls(v):
    v = float(v)
    if np.isnan(v):
        return "nan"
    if np.isinf(v):
        return "inf" if v > 0 else "-inf"
    if v in (-1.0, 0.0, 1.0):
        return f"{v:g}"
    return "finite"


def src_label(domain):
    if domain is None:
        return "None"
    return f"({_cls(domain[0])},{_cls(domain[1])})"


def _chunk_for(tf):
    """HyperbolicRTransform (also wrapped) refuses arrays with b*(size-1) >= 1: evaluate in smaller pieces."""
    t = tf
    while type(t).__name__ == "InverseRTransform":
        t = t._tfm
    if type(t).__name__ == "HyperbolicRTransform":
        return max(1, int(0.95 / float(t.b)))
    return None


_last_aux = {}


def jacobian(tf, x, domain=None):
    """|J| oracle: numerical first derivative of the implemented ``tf.transform`` at the nodes x (float64 array).

    Fit radius = 1/2 distance to the nearest finite end of ``tf.domain`` (nodes that sit exactly on an end get a
    one-sided fit into the domain); five nested radii so that an unknown singularity inside the largest interval
    (Hyperbolic's pole at 1/b) is stepped over.  Returns (J, err) float64 arrays; err = inf where undecidable.
    """
    lo, hi = (float(tf.domain[0]), float(tf.domain[1])) if domain is None else domain
    xl = np.asarray(x, dtype=nd.LD)
    big = np.maximum(np.abs(xl), nd.LD(1.0))
    dl = xl - nd.LD(lo) if np.isfinite(lo) else None
    dr = nd.LD(hi) - xl if np.isfinite(hi) else None
    if dl is None and dr is None:
        dl = dr = big
    elif dl is None:
        dl = dr
    elif dr is None:
        dr = dl
    sym = nd.LD(0.5) * np.minimum(dl, dr)
    left = np.where(dl <= 0, nd.LD(0), sym)
    right = np.where(dr <= 0, nd.LD(0), sym)
    on_lo, on_hi = dl <= 0, dr <= 0
    # one-sided: extend into the domain by half the distance to the other end (or by the scale of x)
    other_r = nd.LD(0.5) * np.where(np.isfinite(hi), np.maximum(dr, 0), big)
    other_l = nd.LD(0.5) * np.where(np.isfinite(lo), np.maximum(dl, 0), big)
    right = np.where(on_lo, other_r, right)
    left = np.where(on_hi, other_l, left)
    bad = (left <= 0) & (right <= 0)
    left = np.where(bad, nd.LD(1e-3), left)  # placeholder, flagged below
    est, err = nd.derivs_with_error(tf.transform, xl, left, right, orders=(1, 2), chunk=_chunk_for(tf), shrink=SHRINK, Ns=NS)
    J = est[0].astype(float)
    e = err[0].copy()
    # second derivative (only used for the conditioning allowance of the Jacobian with respect to the node)
    J2 = np.abs(est[1].astype(float))
    J2[~np.isfinite(J2) | ~(err[1] <= 0.5 * J2)] = np.inf
    dist = np.minimum(np.where(np.isfinite(lo), np.abs(np.asarray(dl if np.isfinite(lo) else dr, dtype=float)), np.inf), np.where(np.isfinite(hi), np.abs(np.asarray(dr if np.isfinite(hi) else dl, dtype=float)), np.inf))
    _last_aux["J2"], _last_aux["dist"] = J2, dist
    e[np.asarray(bad)] = np.inf
    e[~np.isfinite(J)] = np.inf
    return J, e, np.asarray(on_lo | on_hi)


def _f64_noise_of_deriv(tf, x):
    """Measured float64 rounding of the library's own Jacobian evaluation: 10 x |deriv(float64 x) - deriv(long double x)|,
    maximum over x and two points displaced by +-1e-7 of the distance to the nearest domain end (same conditioning,
    different rounding pattern, so that one 'lucky' rounding cannot shrink the tolerance).
    ``tf.deriv`` is NOT used as the oracle; only the difference of its two precisions enters the tolerance (e.g.
    InverseRTransform(Knowles).deriv(19.0) loses 9 digits in 1 - exp(-19/R))."""
    lo, hi = float(tf.domain[0]), float(tf.domain[1])
    d = np.abs(x) + 0.0
    if np.isfinite(lo):
        d = np.abs(x - lo)
    if np.isfinite(hi):
        d = np.minimum(d, np.abs(hi - x)) if np.isfinite(lo) else np.abs(hi - x)
    out = np.zeros(x.shape)
    c = _chunk_for(tf)
    with np.errstate(all="ignore"):
        for s in (0.0, 1e-7, -1e-7):
            xx = x + s * d
            try:
                if c is None:
                    a = np.asarray(tf.deriv(xx), dtype=float).reshape(-1)
                    b = np.asarray(tf.deriv(xx.astype(nd.LD))).reshape(-1).astype(float)
                else:
                    a = nd.call_flat(tf.deriv, xx, c).astype(float)
                    b = nd.call_flat(tf.deriv, xx.astype(nd.LD), c).astype(float)
            except Exception:  # noqa: BLE001 - no long-double evaluation => no extra slack
                continue
            e = np.broadcast_to(10 * np.abs(a - b), x.shape).copy()
            e[~np.isfinite(e)] = 0.0
            out = np.maximum(out, e)
    return out


def check_call(ctx, tf, old, new):
    """Evaluate all clauses for one successful call; returns a dict with the oracle values (for the workload)."""
    name = describe(tf)
    subject = f"{name}|src={src_label(old.domain)}"
    x, w = np.asarray(old.points, dtype=float), np.asarray(old.weights, dtype=float)
    out = {"subject": subject}
    with np.errstate(all="ignore"):
        # ---- points
        again = np.asarray(tf.transform(old.points), dtype=float)
        same = again.shape == new.points.shape and bool(np.all((again == new.points) | (np.isnan(again) & np.isnan(new.points))))
        ctx.check("points-mapped", subject, same, sig="points!=transform(old.points)")
        rl = np.asarray(tf.transform(x.astype(nd.LD))).reshape(-1) if _chunk_for(tf) is None else nd.call_flat(tf.transform, x.astype(nd.LD), _chunk_for(tf))
        out["r_ld"] = rl
        # a finite node inside the transform's domain never maps to NaN (inf is possible: singular end, overflow)
        lo_d, hi_d = float(tf.domain[0]), float(tf.domain[1])
        inside = np.isfinite(x) & (x >= lo_d) & (x <= hi_d)
        nan_nodes = inside & np.isnan(np.asarray(new.points, dtype=float))
        ctx.check("points-mapped", subject + ":not-nan", not bool(nan_nodes.any()), sig="nan-image-of-a-node-inside-the-domain", detail={"x": float(x[int(np.argmax(nan_nodes))]) if nan_nodes.any() else None, "n_nan": int(nan_nodes.sum())})
        # input class: nodes stored as integers / float32 - same VALUES as for the float64 copy of the same nodes
        pk = np.asarray(old.points).dtype
        lowprec = any(np.asarray(a).dtype.kind == "f" and np.asarray(a).dtype.itemsize < 8 for a in (old.points, old.weights))
        if pk != np.float64:
            ref = np.asarray(tf.transform(x), dtype=float).reshape(-1)
            fin = np.isfinite(ref) & np.isfinite(np.asarray(new.points, dtype=float))
            if fin.any():
                scale = np.maximum(np.abs(ref), 0.1 * np.abs(ref[fin]).max())
                if pk.kind in "iu":
                    tolp = 1e-12 * scale
                else:
                    tolp = EPS32 * (1e5 * scale + 300 * np.abs(ref - rl.astype(float)) / np.finfo(float).eps)
                rp = np.abs(np.asarray(new.points, dtype=float) - ref)[fin] / (tolp[fin] + 1e-300)
                ctx.check("points-mapped", subject + ":dtype", float(rp.max()), 1.0, sig=f"{pk.name}-nodes-map-differently-from-their-float64-copy", detail={"dtype": pk.name})
                ctx.hit("decided:points-dtype")

        # ---- weights
        J, err, on_end = jacobian(tf, x)
        out["J"], out["Jerr"] = J, err
        aJ = np.abs(J)
        noise64 = _f64_noise_of_deriv(tf, x)
        # Conditioning allowance of a Jacobian evaluated at a float64 node: 100 eps (|J| + |x J'|), J' from the same
        # numerical differentiation (fallback: power-law bound 10 |J| / distance to the nearest domain end).  This is the
        # inherent part; it does NOT depend on how the library evaluates its own deriv, so an algebraically equivalent
        # rewrite that cancels (subtracting rmin back out of transform(x)) is NOT absorbed.
        with np.errstate(all="ignore"):
            J2, dist = _last_aux["J2"], _last_aux["dist"]
            slope = np.minimum(J2, 10 * aJ / dist)
            slope = np.where(np.isfinite(slope), slope, 0.0)
            cond = 100 * np.finfo(float).eps * (aJ + np.abs(x) * slope)
        out["cond"] = cond
        tol = REL_W * aJ + 100 * err + cond
        if type(tf).__name__ == "InverseRTransform":
            # the wrapper evaluates 1 / T'(T.inverse(r)): the float64 rounding of the intermediate x = T.inverse(r) is
            # inherent to that architecture (x -> 1 loses digits of 1 - x); measured from the two precisions of the same code
            tol = tol + noise64
        if lowprec:
            # float32 nodes / weights: the library's arithmetic is float32 (parameters and derived constants rounded as well)
            tol = tol + EPS32 * (1e5 * aJ + 30 * noise64 / np.finfo(float).eps)
            ctx.count("calls-with-float32-grid")
        out["tol"] = tol
        decided = np.isfinite(tol) & (tol <= 1e-3 * aJ) & (aJ > 0) & np.isfinite(new.weights) & np.isfinite(w)
        out["decided"] = decided
        ctx.count("nodes-decided", int(decided.sum()))
        ctx.count("nodes-undecided", int(decided.size - decided.sum()))
        ctx.count("nodes-on-domain-end-decided", int((decided & on_end).sum()))
        if decided.any():
            d = decided
            lhs = np.abs(new.weights[d])
            rhs = aJ[d] * np.abs(w[d])
            ratio = np.abs(lhs - rhs) / (tol[d] * np.abs(w[d]) + 1e-300)
            ratio[np.abs(w[d]) == 0] = np.where(lhs[np.abs(w[d]) == 0] == 0, 0.0, np.inf)
            i = int(np.argmax(ratio))
            xi = float(x[d][i])
            ctx.check("weights-magnitude", subject, float(ratio[i]), 1.0, sig="|w_new|!=|J||w_old|", detail={"x": xi, "w_old": float(w[d][i]), "w_new": float(new.weights[d][i]), "J_oracle": float(J[d][i]), "J_err": float(err[d][i]), "n_decided": int(d.sum())})
            ctx.hit("decided:weights-magnitude")
            # ---- sign
            pos = d & (w > 0)
            if pos.any():
                neg = pos & (new.weights < 0)
                if neg.any():
                    exact = bool(np.all(np.abs(new.weights[pos] + aJ[pos] * w[pos]) <= tol[pos] * w[pos]))
                    direction = "decreasing" if np.median(J[pos]) < 0 else "increasing"
                    sig = ("w_new==-|J|w_old" if exact else "some-weights-negative") + f",map-{direction}"
                    j = int(np.argmax(neg))
                    ctx.check("weights-sign", subject, False, sig=sig, detail={"n_negative": int(neg.sum()), "n_positive_old": int(pos.sum()), "x": float(x[j]), "w_old": float(w[j]), "w_new": float(new.weights[j]), "J_oracle": float(J[j])})
                else:
                    ctx.check("weights-sign", subject, True)
                ctx.hit("decided:weights-sign")

        # ---- secondary Jacobian oracle: derivative of the DOCUMENTED map in 40-digit arithmetic (gridrv.oracles.transforms_ref)
        # at the nodes nearest both ends and a few interior ones.  numdiff of the implemented map cannot resolve |J| better than
        # ~eps_ld*|r|/(rho |J|): where rmin >> r - rmin that is the same order as a float64 cancellation in the library's deriv.
        # Only used where the implemented map agrees with the documented one to 1e-12 (otherwise skipped: model mismatch).
        if type(tf).__name__ != "InverseRTransform" and x.size:
            order = np.argsort(x)
            pick = np.unique(np.concatenate([order[:8], order[-8:], order[np.linspace(0, x.size - 1, 6).astype(int)]]))
            pick = pick[~on_end[pick] & np.isfinite(x[pick])]
            if pick.size:
                Jm, okm = transforms_ref.mp_jacobian(tf, x[pick], rl[pick].astype(float))
                ctx.count("secondary:nodes-without-reference", int((~okm).sum()))
                if okm.any():
                    aJm = np.abs(Jm)
                    dd = _last_aux["dist"][pick]
                    condm = 100 * np.finfo(float).eps * aJm * (1 + 10 * np.abs(x[pick]) / np.where(dd > 0, dd, np.inf))
                    tolm = 1e-9 * aJm + condm
                    if lowprec:
                        tolm = tolm + EPS32 * (1e5 * aJm + 30 * noise64[pick] / np.finfo(float).eps)
                    wp, nwp = w[pick], np.asarray(new.weights, dtype=float)[pick]
                    use = okm & np.isfinite(wp) & np.isfinite(nwp) & (aJm > 0)
                    if use.any():
                        rat = np.where(use, np.abs(np.abs(nwp) - aJm * np.abs(wp)) / (tolm * np.abs(wp) + 1e-300), 0.0)
                        rat[use & (wp == 0)] = np.where(nwp[use & (wp == 0)] == 0, 0.0, np.inf)
                        i = int(np.argmax(rat))
                        ctx.check("weights-magnitude-mpref", subject, float(rat[i]), 1.0, sig="|w_new|!=|J_documented||w_old|", detail={"x": float(x[pick][i]), "w_old": float(wp[i]), "w_new": float(nwp[i]), "J_documented": float(Jm[i]), "rel": float(abs(abs(nwp[i]) - aJm[i] * abs(wp[i])) / (aJm[i] * abs(wp[i]) + 1e-300))})
                        ctx.hit("decided:weights-magnitude-mpref")
                        van = use & (wp > 0) & (np.abs(nwp) < np.finfo(float).tiny) & (aJm * wp > 1e-280)
                        ctx.check("weights-not-vanishing", subject + ":mpref", not bool(van.any()), sig="weight-zero-or-subnormal-where-|J|w>1e-280", detail={"n_vanished": int(van.sum())})

        # ---- cheap global guard: a positive weight never vanishes (exactly 0 or subnormal) where the map's Jacobian,
        # known to better than a factor 2, times the old weight is a comfortably representable number
        with np.errstate(all="ignore"):
            known = np.isfinite(J) & (err <= 0.5 * aJ) & (w > 0) & np.isfinite(w) & ~on_end  # interior nodes (at an end J may be 0)
            vanished = known & (np.abs(new.weights) < np.finfo(float).tiny) & (aJ * w > 1e-280)
        if type(tf).__name__ == "InverseRTransform":
            # 1 / T'(T.inverse(r)): once T.inverse(r) rounds to the end point the weight is 1/inf = 0 although the true Jacobian is
            # ~1e-17: inherent to the wrapper's architecture (absolute error ~1e-17), counted, not decided
            ctx.count("wrapper-weights-vanished-after-inverse-rounded-to-end", int(vanished.sum()))
        elif known.any():
            j = int(np.argmax(vanished))
            ctx.check("weights-not-vanishing", subject, not bool(vanished.any()), sig="weight-zero-or-subnormal-where-|J|w>1e-280", detail={"x": float(x[j]), "w_old": float(w[j]), "w_new": float(new.weights[j]), "J_oracle": float(J[j]), "n_vanished": int(vanished.sum())})

        # ---- domain
        od, nw = old.domain, new.domain
        if od is None:
            ctx.check("domain-image", subject, nw is None, sig="domain-invented")
        elif nw is None:
            ctx.fail("domain-image", subject, "domain-dropped")
        else:
            nlo, nhi = float(nw[0]), float(nw[1])
            if np.isnan(nlo) or np.isnan(nhi):
                which = ("lower" if np.isnan(nlo) else "") + ("upper" if np.isnan(nhi) else "")
                src_nan = bool(np.isnan(od[0]) or np.isnan(od[1]))
                src_inf = bool(np.isinf(od[0]) or np.isinf(od[1]))
                ctx.check("domain-image", subject, False, sig="domain-end-nan" + (",source-end-nan" if src_nan else (",source-end-infinite" if src_inf else ",source-ends-finite")), detail={"old_domain": [float(od[0]), float(od[1])], "new_domain": [nlo, nhi], "which": which})
            else:
                ctx.check("domain-image", subject, nlo <= nhi, sig="domain-not-ascending", detail={"new_domain": [nlo, nhi]})
                img = np.asarray(tf.transform(np.array([od[0], od[1]], dtype=float)), dtype=float).reshape(-1)
                if not np.any(np.isnan(img)):
                    want = np.sort(img)
                    sc = max(abs(v) for v in want if np.isfinite(v)) if np.any(np.isfinite(want)) else 1.0
                    dv = 0.0
                    for g, wv in zip((nlo, nhi), want):
                        if np.isinf(wv) or np.isinf(g):
                            dv = max(dv, 0.0 if g == wv else np.inf)
                        else:
                            dv = max(dv, abs(g - wv) / max(sc, 1e-300))
                    ctx.check("domain-image", subject, dv, 1e-9, sig="domain!=sorted-image-of-old-domain", detail={"old_domain": [float(od[0]), float(od[1])], "new_domain": [nlo, nhi], "image": [float(v) for v in want]})
                pts = new.points[np.isfinite(new.points)]
                if pts.size:
                    slack = 1e-12 * max(abs(nlo) if np.isfinite(nlo) else 0, abs(nhi) if np.isfinite(nhi) else 0, float(np.abs(pts).max()))
                    ctx.check("domain-image", subject + ":contains-nodes", bool(pts.min() >= nlo - slack and pts.max() <= nhi + slack), sig="node-outside-new-domain", detail={"new_domain": [nlo, nhi], "min": float(pts.min()), "max": float(pts.max())})
            ctx.hit("decided:domain-image")
    return out


_last = {}


def last_result():
    """Oracle values of the most recent monitored call (the workload reuses J and the long-double images)."""
    return _last.get("out")


def install(ctx):
    from grid.rtransform import BaseTransform

    def post(res, exc, args, kwargs):
        _last["out"] = None
        if exc is not None:
            return
        tf = args[0]
        old = args[1] if len(args) > 1 else kwargs.get("oned_grid")
        _last["out"] = check_call(ctx, tf, old, res)

    instrument.wrap_method(ctx, BaseTransform, "transform_1d_grid", post, hook="BaseTransform.transform_1d_grid")
