"""C20 - generic byte-snapshot monitor for every public callable of every ``grid.*`` module.

``install(sink)`` walks the public API of the real library (module-level functions, every public
method of every class incl. ``__init__``/``__call__``/``__getitem__``, classmethods and
staticmethods; inherited methods are wrapped where they are defined) and replaces each by a
wrapper which

* at ENTRY digests (blake2b of the bytes + dtype + shape + writeable flag) every ndarray reachable
  from args/kwargs through lists, tuples, dicts and attributes of ``grid`` objects passed as
  arguments, and the STRUCTURE of those containers (keys, lengths, identity/value of the elements);
* replaces every callable argument (also inside lists/tuples/dicts) by a transparent proxy that
  digests every array the callback returns and keeps a reference to it (plain functions by a
  closure, callable instances by an attribute-delegating proxy class that also answers
  ``isinstance``);
* at EXIT - normal or exceptional - digests everything again.  Any difference is a failure whose
  subject is ``<callable>:<parameter path>``, e.g. ``solve_poisson_bvp:ode_params#keys`` or
  ``solve_ode_bvp:callback fx return``;
* a NumPy "read-only" ValueError raised from inside the library is reported with the stack of the
  offending write (write-protection sanitizer: the workload passes write-protected arrays);
* functions RETURNED by public callables (interpolants, potentials) are wrapped the same way.

The monitor never changes a result: arguments are passed through untouched unless they contain a
callable (then the container is rebuilt with proxies and the rebuilt container is what is
snapshotted), exceptions of the monitor are swallowed and reported to ``sink.error``.

The ``sink`` decouples the monitor from the framework: ``CtxSink`` feeds ``core.Ctx``, ``DictSink``
collects into a JSON-able dict (used when the repository's tests run under the monitor).
"""

from __future__ import annotations

import functools
import hashlib
import importlib
import inspect
import pkgutil
import re
import sys
import types
import weakref

import numpy as np

CL_DATA = "caller-data-unchanged"
CL_CB = "callback-result-unchanged"
CL_OBJ = "argument-object-arrays-unchanged"
CL_CTOR = "constructor-argument-unchanged"
CL_RO = "read-only-inputs-accepted"

_SPECIAL = ("__init__", "__call__", "__getitem__")
_SKIP_MODULES = ("grid.tests", "grid.data", "grid._version")
_KEEP_COPY_BYTES = 4096
_MAX_DEPTH = 7
_MAX_OBJ_DEPTH = 3
_CB_MAX_RECORDS = 20000
_CB_MAX_BYTES = 128 * 1024 * 1024

# special methods that make a callable instance "more than a callback": such objects are not proxied
_RICH_DUNDERS = ("__len__", "__iter__", "__getitem__", "__array__", "__add__", "__mul__", "__contains__", "__index__", "__float__")


# ------------------------------------------------------------------------------------- sinks
class CtxSink:
    """Feed a ``core.Ctx``."""

    def __init__(self, ctx):
        self.ctx = ctx

    def hit(self, name):
        self.ctx.hit(name)

    def ok(self, clause, subject):
        self.ctx.check(clause, subject, True)

    def fail(self, clause, subject, sig, detail):
        self.ctx.fail(clause, subject, sig, detail=detail)

    def observe(self, text, **kw):
        self.ctx.observe(text, **kw)

    def count(self, key, n=1):
        self.ctx.count(key, n)

    def error(self, where, exc):
        self.ctx.monitor_error(where, exc)


class DictSink:
    """Collect into plain dicts (JSON side file of the repo-tests workload)."""

    def __init__(self):
        self.hits, self.oks, self.counts = {}, {}, {}
        self.failures, self.observations, self.errors = [], [], []
        self.context = None  # e.g. current pytest node id

    def hit(self, name):
        self.hits[name] = self.hits.get(name, 0) + 1

    def ok(self, clause, subject):
        self.oks[clause] = self.oks.get(clause, 0) + 1

    def fail(self, clause, subject, sig, detail):
        if len(self.failures) < 200:
            self.failures.append({"clause": clause, "subject": subject, "sig": sig, "detail": detail, "context": self.context})
        self.count("failures_total")

    def observe(self, text, **kw):
        if len(self.observations) < 60:
            self.observations.append({"what": text, "context": self.context, **kw})
        self.count("observation:" + text)

    def count(self, key, n=1):
        self.counts[key] = self.counts.get(key, 0) + n

    def error(self, where, exc):
        if len(self.errors) < 20:
            import traceback

            self.errors.append({"where": where, "error": f"{type(exc).__name__}: {exc}"[:300], "tb": traceback.format_exception(exc)[-4:], "context": self.context})

    def dump(self):
        return {"hits": self.hits, "oks": self.oks, "counts": self.counts, "failures": self.failures, "observations": self.observations, "errors": self.errors}


# ---------------------------------------------------------------------------------- digests
def digest_array(a):
    """(bytes digest, meta) of an ndarray; meta = (dtype, shape, writeable)."""
    h = hashlib.blake2b(digest_size=16)
    if a.dtype.hasobject:
        try:
            h.update(repr(a.tolist()).encode())
        except Exception:
            h.update(b"?")
    elif a.flags.c_contiguous:
        try:
            h.update(a.data)
        except (ValueError, TypeError, BufferError):
            h.update(a.tobytes())
    else:
        h.update(a.tobytes())
    return h.digest(), (str(a.dtype), a.shape, bool(a.flags.writeable))


_SCALARS = (int, float, complex, str, bytes, bool, type(None), np.generic)


def _token(v):
    """Identity/value token of an element of a container (structure digest)."""
    if isinstance(v, _SCALARS):
        return ("v", type(v).__name__, repr(v))
    return ("o", type(v).__name__, id(v))


def _is_grid_object(v):
    t = type(v)
    m = getattr(t, "__module__", "") or ""
    return (m == "grid" or m.startswith("grid.")) and not isinstance(v, type)


class _Item:
    __slots__ = ("path", "kind", "ref", "snap", "copy", "clause")

    def __init__(self, path, kind, ref, snap, clause, copy=None):
        self.path, self.kind, self.ref, self.snap, self.clause, self.copy = path, kind, ref, snap, clause, copy


def _struct(obj):
    if isinstance(obj, dict):
        return ("dict", tuple((repr(k), _token(v)) for k, v in obj.items()))
    return (type(obj).__name__, tuple(_token(v) for v in obj))


def walk(obj, path, out, clause=CL_DATA, depth=0, objdepth=0, seen=None):
    """Append an ``_Item`` for every array / container reachable from ``obj``."""
    if seen is None:
        seen = set()
    if depth > _MAX_DEPTH:
        return
    if isinstance(obj, np.ndarray):
        if id(obj) in seen:
            return
        seen.add(id(obj))
        cp = obj.copy() if obj.nbytes <= _KEEP_COPY_BYTES and not obj.dtype.hasobject else None
        out.append(_Item(path, "array", obj, digest_array(obj), clause, cp))
    elif isinstance(obj, (list, tuple)):
        if id(obj) in seen or (isinstance(obj, tuple) and all(isinstance(v, _SCALARS) for v in obj)):
            return
        seen.add(id(obj))
        out.append(_Item(path + "#len", "struct", obj, _struct(obj), clause))
        for i, v in enumerate(obj):
            if not isinstance(v, _SCALARS):
                walk(v, f"{path}[{i}]", out, clause, depth + 1, objdepth, seen)
    elif isinstance(obj, dict):
        if id(obj) in seen:
            return
        seen.add(id(obj))
        out.append(_Item(path + "#keys", "struct", obj, _struct(obj), clause))
        for k, v in list(obj.items()):
            if not isinstance(v, _SCALARS):
                walk(v, f"{path}[{k!r}]", out, clause, depth + 1, objdepth, seen)
    elif _is_grid_object(obj) and objdepth < _MAX_OBJ_DEPTH:
        if id(obj) in seen:
            return
        seen.add(id(obj))
        d = getattr(obj, "__dict__", None)
        if isinstance(d, dict):
            for k, v in list(d.items()):
                if isinstance(v, (np.ndarray, list, dict)) or _is_grid_object(v):
                    walk(v, f"{path}.{k}", out, CL_OBJ, depth + 1, objdepth + 1, seen)


def _diff(item):
    """None when unchanged, else (sig, detail)."""
    if item.kind == "array":
        a = item.ref
        new = digest_array(a)
        if new == item.snap:
            return None
        (od, om), (nd, nm) = item.snap, new
        det = {"path": item.path, "dtype": om[0], "shape": list(om[1])}
        if om[:2] != nm[:2]:
            det["new_dtype_shape"] = [nm[0], list(nm[1])]
            return "shape-or-dtype-changed", det
        if od != nd:
            if item.copy is not None:
                try:
                    neq = ~((item.copy == a) | ((item.copy != item.copy) & (a != a)))
                    bad = np.argwhere(neq)
                    det["n_changed"] = int(len(bad))
                    if len(bad):
                        i = tuple(int(t) for t in bad[0])
                        det["first_index"] = list(i)
                        det["before"], det["after"] = repr(item.copy[i]), repr(a[i])
                except Exception:
                    pass
            return "bytes-changed", det
        det["writeable"] = [om[2], nm[2]]
        return "writeable-flag-changed", det
    new = _struct(item.ref)
    if new == item.snap:
        return None
    det = {"path": item.path}
    if item.snap[0] == "dict":
        ok, nk = [k for k, _ in item.snap[1]], [k for k, _ in new[1]]
        added, removed = [k for k in nk if k not in ok], [k for k in ok if k not in nk]
        if added or removed:
            det["added"], det["removed"] = added[:8], removed[:8]
            return ("keys-added" if added and not removed else "keys-removed" if removed and not added else "keys-changed"), det
        chg = [k for (k, t0), (_, t1) in zip(item.snap[1], new[1]) if t0 != t1]
        det["values_replaced"] = chg[:8]
        return "values-replaced", det
    if len(item.snap[1]) != len(new[1]):
        det["len"] = [len(item.snap[1]), len(new[1])]
        return "length-changed", det
    chg = [i for i, (t0, t1) in enumerate(zip(item.snap[1], new[1])) if t0 != t1]
    det["elements_replaced"] = chg[:8]
    if chg:
        det["before"], det["after"] = str(item.snap[1][chg[0]][2])[:60], str(new[1][chg[0]][2])[:60]
    if sorted(map(str, item.snap[1])) == sorted(map(str, new[1])):
        return "elements-reordered", det
    return "elements-replaced", det


_IDX = re.compile(r"\[\d+\]")


def _subj(qual, path):
    return f"{qual}:{_IDX.sub('[i]', path)}"


# -------------------------------------------------------------------------- callback proxies
class _Frame:
    """State of one monitored public call."""

    __slots__ = ("qual", "items", "closed", "cb_records", "cb_pending", "cb_bytes", "cb_calls", "cb_by_id", "self_items", "self_obj")

    def __init__(self, qual):
        self.qual = qual
        self.items = []
        self.closed = False
        self.cb_records = []  # [label, call_no, path, ref, snap, aliases_arg]
        self.cb_pending = 0  # index into cb_records of the first record not yet verified once
        self.cb_bytes = 0
        self.cb_calls = 0
        self.cb_by_id = {}
        self.self_items = None
        self.self_obj = None


class _Monitor:
    def __init__(self):
        self.sink = None
        self.installed = False
        self.undo = []
        self.busy = 0
        self.nwrapped = 0
        self.names = []
        self.self_active = set()  # ids of objects whose array attributes an enclosing frame already tracks
        self.aliases = weakref.WeakKeyDictionary()  # object -> {attr: (weakref(array) | None, "Class.__init__:param")}


M = _Monitor()
_G = globals()


def _cb_verify(frame, upto=None, when="exit"):
    """Re-digest callback results recorded in ``frame`` (from cb_pending, or all at exit)."""
    recs = frame.cb_records
    start = frame.cb_pending if when == "next-callback" else 0
    stop = len(recs) if upto is None else upto
    for i in range(start, stop):
        rec = recs[i]
        if rec is None:
            continue
        label, callno, path, ref, snap, alias = rec
        new = digest_array(ref)
        if new != snap:
            what = "bytes-changed" if new[0] != snap[0] else ("shape-or-dtype-changed" if new[1][:2] != snap[1][:2] else "writeable-flag-changed")
            M.sink.fail(
                CL_CB,
                f"{frame.qual}:callback {label} return",
                what + (":callback-returned-its-argument" if alias else ""),
                {"callback_call_no": callno, "of_calls_so_far": frame.cb_calls, "detected": when, "path": path, "shape": list(snap[1][1]), "dtype": snap[1][0], "returned_object_aliases_its_argument": alias},
            )
            recs[i] = None  # report once
    if when == "next-callback":
        frame.cb_pending = stop


def _cb_record(frame, label, res, args, kwargs):
    frame.cb_calls += 1
    found = []
    walk(res, "return", found, CL_CB)
    for it in found:
        if it.kind != "array":
            continue
        a = it.ref
        alias = False
        for v in list(args) + list(kwargs.values()):
            if isinstance(v, np.ndarray) and (v is a or np.may_share_memory(v, a)):
                alias = True
                break
        root = a
        while isinstance(root.base, np.ndarray):
            root = root.base
        prev = frame.cb_by_id.get(id(root))
        if prev is not None and frame.cb_records[prev] is not None:
            if frame.cb_records[prev][3] is a:
                # the same object returned again (cached array / reused buffer): refresh its digest - whatever
                # happened to it before this call was verified by _cb_verify at callback entry
                frame.cb_records[prev][4] = it.snap
                frame.cb_records[prev][1] = frame.cb_calls
                continue
            # another view of the same buffer: the older view was verified at this callback's entry; user code
            # (the callback) has run since and may legitimately have rewritten its own buffer -> track the newest only
            frame.cb_bytes -= frame.cb_records[prev][3].nbytes
            frame.cb_records[prev] = None
        frame.cb_by_id[id(root)] = len(frame.cb_records)
        frame.cb_records.append([label, frame.cb_calls, it.path, a, it.snap, alias])
        frame.cb_bytes += a.nbytes
    if len(frame.cb_records) > _CB_MAX_RECORDS or frame.cb_bytes > _CB_MAX_BYTES:
        # bound memory: verify everything held so far, then forget it (sound, only less complete)
        _cb_verify(frame, when="flush")
        M.sink.count("callback-records-flushed")
        frame.cb_records, frame.cb_by_id, frame.cb_bytes, frame.cb_pending = [], {}, 0, 0


def _invoke_callback(target, frame, label, args, kwargs):
    if frame.closed or M.sink is None:
        return target(*args, **kwargs)
    try:
        M.busy += 1
        try:
            _cb_verify(frame, when="next-callback")
        finally:
            M.busy -= 1
    except Exception as exc:  # noqa
        M.sink.error("callback-verify:" + frame.qual, exc)
    res = target(*args, **kwargs)
    try:
        M.busy += 1
        try:
            _cb_record(frame, label, res, args, kwargs)
        finally:
            M.busy -= 1
    except Exception as exc:  # noqa
        M.sink.error("callback-record:" + frame.qual, exc)
    return res


class _InstanceProxy:
    """Attribute-delegating stand-in for a callable instance (e.g. BeckeWeights, CubicSpline)."""

    __slots__ = ("_gridrv_target", "_gridrv_frame", "_gridrv_label")

    def __init__(self, target, frame, label):
        object.__setattr__(self, "_gridrv_target", target)
        object.__setattr__(self, "_gridrv_frame", frame)
        object.__setattr__(self, "_gridrv_label", label)

    def __call__(self, *args, **kwargs):
        return _invoke_callback(self._gridrv_target, self._gridrv_frame, self._gridrv_label, args, kwargs)

    def __getattr__(self, name):
        return getattr(object.__getattribute__(self, "_gridrv_target"), name)

    def __setattr__(self, name, value):
        setattr(self._gridrv_target, name, value)

    @property
    def __class__(self):  # isinstance(proxy, BeckeWeights) is True
        return type(object.__getattribute__(self, "_gridrv_target"))

    def __repr__(self):
        return repr(self._gridrv_target)

    def __eq__(self, other):
        return self._gridrv_target == (other._gridrv_target if type(other) is _InstanceProxy else other)

    def __hash__(self):
        return hash(self._gridrv_target)


_FUNC_TYPES = (types.FunctionType, types.MethodType, types.BuiltinFunctionType, types.BuiltinMethodType, np.ufunc, functools.partial)


def _make_proxy(fn, frame, label):
    if isinstance(fn, type):
        return fn  # classes (e.g. TrefethenGeneral(quadrature=GaussChebyshev)) are not callbacks
    if isinstance(fn, _FUNC_TYPES):

        def proxy(*args, **kwargs):
            return _invoke_callback(fn, frame, label, args, kwargs)

        try:
            functools.update_wrapper(proxy, fn)
        except Exception:
            pass
        proxy.__gridrv_proxy__ = fn
        return proxy
    t = type(fn)
    if any(hasattr(t, d) for d in _RICH_DUNDERS):
        M.sink.count("callable-not-proxied:" + t.__name__)
        return fn
    return _InstanceProxy(fn, frame, label)


def _substitute(obj, label, frame, depth=0):
    """Return (new_obj, changed): callables replaced by proxies, containers rebuilt only when needed."""
    if depth > 4 or isinstance(obj, (np.ndarray, str, bytes)) or isinstance(obj, _SCALARS):
        return obj, False
    if isinstance(obj, (list, tuple)):
        new, changed = [], False
        for i, v in enumerate(obj):
            nv, ch = _substitute(v, f"{label}[{i}]", frame, depth + 1)
            new.append(nv)
            changed |= ch
        if not changed:
            return obj, False
        if isinstance(obj, list):
            return new, True
        try:
            return type(obj)(new), True
        except Exception:
            return tuple(new), True
    if isinstance(obj, dict):
        new, changed = {}, False
        for k, v in obj.items():
            nv, ch = _substitute(v, f"{label}[{k!r}]", frame, depth + 1)
            new[k] = nv
            changed |= ch
        return (new, True) if changed else (obj, False)
    if callable(obj) and not isinstance(obj, type):
        p = _make_proxy(obj, frame, label)
        return p, p is not obj
    return obj, False


# --------------------------------------------------------------------------------- wrappers
def _param_names(fn, skip_first):
    try:
        sig = inspect.signature(fn)
    except (TypeError, ValueError):
        return [], None
    names, var = [], None
    for p in sig.parameters.values():
        if p.kind in (p.POSITIONAL_ONLY, p.POSITIONAL_OR_KEYWORD):
            names.append(p.name)
        elif p.kind == p.VAR_POSITIONAL:
            var = p.name
    if skip_first and names:
        names = names[1:]
    return names, var


def _self_arrays(obj):
    d = getattr(obj, "__dict__", None)
    out = []
    if isinstance(d, dict):
        for k, v in d.items():
            if isinstance(v, np.ndarray):
                out.append(_Item(k, "array", v, digest_array(v), CL_CTOR, v.copy() if v.nbytes <= _KEEP_COPY_BYTES and not v.dtype.hasobject else None))
    return out


def _enter(qual, kind, names, varname, args, kwargs, name):
    frame = _Frame(qual)
    skip = 1 if kind in ("method", "classmethod") else 0
    new_args, changed = list(args), False
    for i in range(skip, len(args)):
        j = i - skip
        label = names[j] if j < len(names) else (f"{varname}[{j - len(names)}]" if varname else f"args[{j}]")
        nv, ch = _substitute(args[i], label, frame)
        if ch:
            new_args[i], changed = nv, True
        walk(new_args[i], label, frame.items)
    new_kwargs = kwargs
    if kwargs:
        new_kwargs = {}
        for k, v in kwargs.items():
            nv, ch = _substitute(v, k, frame)
            new_kwargs[k] = nv
            changed |= ch
            walk(nv, k, frame.items)
    if kind == "method" and name != "__init__" and args and id(args[0]) not in M.self_active:
        # arrays of `self` are digested by the outermost method call on that object only (nested calls on the
        # same object are covered by it; digesting them at every level is quadratic for e.g. cubic interpolation)
        frame.self_obj = args[0]
        frame.self_items = _self_arrays(args[0])
        M.self_active.add(id(args[0]))
    return frame, (tuple(new_args), new_kwargs) if changed else None


def _register_ctor_aliases(frame, obj, qual, merge=False):
    """After __init__ (or a property setter, merge=True): remember which array attributes of the object alias arrays
    passed by the caller."""
    d = getattr(obj, "__dict__", None)
    if not isinstance(d, dict):
        return
    passed = [(it.path, it.ref) for it in frame.items if it.kind == "array" and it.clause == CL_DATA]
    al = {}
    for k, v in d.items():
        if isinstance(v, np.ndarray):
            for path, a in passed:
                if v is a or (v.size and a.size and np.may_share_memory(v, a)):
                    try:
                        al[k] = (weakref.ref(a), f"{qual}:{path}")
                    except TypeError:
                        al[k] = (None, f"{qual}:{path}")
                    break
    try:  # the outermost __init__ exits last and therefore decides (its caller is the user of the class)
        if merge:
            if al:
                old = dict(M.aliases.get(obj) or {})
                old.update(al)
                M.aliases[obj] = old
        elif al:
            M.aliases[obj] = al
        elif obj in M.aliases:
            del M.aliases[obj]
    except TypeError:
        pass


def _exit(frame, exc, result_obj=None, is_init=False):
    sink = M.sink
    frame.closed = True
    if frame.self_obj is not None:
        M.self_active.discard(id(frame.self_obj))
    nfail = 0
    if exc is not None:
        sink.count("monitored-calls-left-by-exception")
    for it in frame.items:
        d = _diff(it)
        if d is not None:
            nfail += 1
            sig, det = d
            det["call_raised"] = type(exc).__name__ if exc is not None else None
            sink.fail(it.clause, _subj(frame.qual, it.path), sig, det)
    if frame.items:
        if nfail == 0:
            sink.ok(CL_DATA, frame.qual)
            if any(it.clause == CL_OBJ for it in frame.items):
                sink.ok(CL_OBJ, frame.qual)
        sink.count("arrays-and-containers-digested", len(frame.items))
    if frame.cb_records:
        _cb_verify(frame, when="exit")
        sink.ok(CL_CB, frame.qual)
        sink.count("callback-returns-digested", len(frame.cb_records))
    if frame.self_items:
        al = None
        try:
            al = M.aliases.get(frame.self_obj)
        except TypeError:
            pass
        for it in frame.self_items:
            d = _diff(it)
            if d is None:
                continue
            sig, det = d
            src = al.get(it.path) if al else None
            live = False
            if src is not None:
                ref = src[0]() if src[0] is not None else None
                live = ref is not None and (ref is it.ref or np.may_share_memory(ref, it.ref))
            if live:
                det["aliases"] = src[1]
                sink.fail(CL_CTOR, f"{frame.qual}:self.{it.path} (caller array given to {src[1]})", sig, det)
            else:
                sink.observe("method changed an array attribute of self (not known to alias caller data)", subject=f"{frame.qual}:self.{it.path}", sig=sig)
    if is_init and exc is None and result_obj is not None:
        _register_ctor_aliases(frame, result_obj, frame.qual)
    elif exc is None and frame.qual.endswith("=") and frame.self_obj is not None:
        _register_ctor_aliases(frame, frame.self_obj, frame.qual, merge=True)
    if exc is not None and isinstance(exc, ValueError) and "read-only" in str(exc) and not getattr(exc, "__gridrv_reported__", False):
        from gridrv import core

        if core.is_library_exception(exc):
            try:
                exc.__gridrv_reported__ = True
            except Exception:
                pass
            tb = core.short_tb(exc, 8)
            lib = [f for f in tb if f.startswith("src/grid/") and "/tests/" not in f]
            site = lib[-1] if lib else (tb[-1] if tb else "?")
            sink.fail(CL_RO, frame.qual, "read-only-write@" + site.split(":", 1)[0].replace("src/grid/", "") + ":" + site.rsplit(":", 1)[-1], {"error": str(exc)[:200], "stack": tb})


def _wrap_result(res, qual):
    if type(res) is types.FunctionType and (getattr(res, "__module__", "") or "").startswith("grid") and not hasattr(res, "__gridrv_orig__"):
        return _make_wrapper(res, qual + "()", "function", "returned")
    return res


def _make_wrapper(orig, qual, kind, name):
    names, varname = _param_names(orig, kind in ("method", "classmethod"))
    is_init = name == "__init__"

    @functools.wraps(orig)
    def wrapper(*args, **kwargs):
        sink = M.sink
        if sink is None or M.busy:
            return orig(*args, **kwargs)
        # warnings raised by the library with stacklevel=2 are attributed to THIS frame: do not let the
        # once-per-location registry of this module swallow repetitions the caller would have seen
        _G.pop("__warningregistry__", None)
        q = qual
        frame = None
        try:
            M.busy += 1
            try:
                if kind == "method" and args:
                    q = f"{type(args[0]).__name__}.{name}"
                elif kind == "classmethod" and args and isinstance(args[0], type):
                    q = f"{args[0].__name__}.{name}"
                frame, sub = _enter(q, kind, names, varname, args, kwargs, name)
                if sub is not None:
                    args, kwargs = sub
            finally:
                M.busy -= 1
        except Exception as mexc:  # noqa
            frame = None
            sink.error("enter:" + q, mexc)
        sink.hit(q)
        try:
            res = orig(*args, **kwargs)
        except BaseException as exc:
            if frame is not None:
                try:
                    M.busy += 1
                    try:
                        _exit(frame, exc)
                    finally:
                        M.busy -= 1
                except Exception as mexc:  # noqa
                    sink.error("exit:" + q, mexc)
            raise
        if frame is not None:
            try:
                M.busy += 1
                try:
                    _exit(frame, None, args[0] if (is_init and args) else None, is_init)
                    res = _wrap_result(res, q)
                finally:
                    M.busy -= 1
            except Exception as mexc:  # noqa
                sink.error("exit:" + q, mexc)
        return res

    wrapper.__gridrv_orig__ = orig
    return wrapper


def _grid_modules():
    import grid

    mods = [grid]
    for m in pkgutil.iter_modules(grid.__path__):
        full = "grid." + m.name
        if full in _SKIP_MODULES or m.ispkg:
            continue
        mods.append(importlib.import_module(full))
    return mods


def install(sink):
    """Wrap every public callable of every grid module. Returns the list of wrapped names."""
    M.sink = sink
    if M.installed:
        return M.names
    mods = _grid_modules()
    done_cls = set()
    names = []
    for mod in mods:
        if mod.__name__ == "grid":
            continue
        for name, obj in list(vars(mod).items()):
            if name.startswith("_") or getattr(obj, "__module__", None) != mod.__name__:
                continue
            if inspect.isfunction(obj):
                if hasattr(obj, "__gridrv_orig__"):
                    continue
                w = _make_wrapper(obj, name, "function", name)
                n = 0
                for mname, m2 in list(sys.modules.items()):
                    if m2 is None or not (mname == "grid" or mname.startswith("grid.")):
                        continue
                    for attr, val in list(vars(m2).items()):
                        if val is obj:
                            setattr(m2, attr, w)
                            M.undo.append((m2, attr, obj))
                            n += 1
                names.append(name)
            elif inspect.isclass(obj):
                for cls in obj.__mro__:
                    cm = getattr(cls, "__module__", "") or ""
                    if cls in done_cls or not cm.startswith("grid."):
                        continue
                    done_cls.add(cls)
                    for k, raw in list(vars(cls).items()):
                        if k.startswith("_") and k not in _SPECIAL:
                            continue
                        if isinstance(raw, property):
                            # public property SETTERS are state-changing public operations: wrap fset ("Grid.weights=")
                            fs = raw.fset
                            if fs is not None and inspect.isfunction(fs) and not hasattr(fs, "__gridrv_orig__"):
                                w = _make_wrapper(fs, f"{cls.__name__}.{k}=", "method", k + "=")
                                setattr(cls, k, property(raw.fget, w, raw.fdel, raw.__doc__))
                                M.undo.append((cls, k, raw))
                                names.append(f"{cls.__name__}.{k}=")
                            continue
                        if isinstance(raw, (classmethod, staticmethod)):
                            fn = raw.__func__
                            kind = "classmethod" if isinstance(raw, classmethod) else "function"
                        else:
                            fn, kind = raw, "method"
                        if not inspect.isfunction(fn) or hasattr(fn, "__gridrv_orig__") or getattr(fn, "__isabstractmethod__", False):
                            continue
                        w = _make_wrapper(fn, f"{cls.__name__}.{k}", kind, k)
                        setattr(cls, k, type(raw)(w) if isinstance(raw, (classmethod, staticmethod)) else w)
                        M.undo.append((cls, k, raw))
                        names.append(f"{cls.__name__}.{k}")
    M.installed = True
    M.names = names
    M.nwrapped = len(names)
    return names


def uninstall():
    for owner, attr, orig in reversed(M.undo):
        setattr(owner, attr, orig)
    M.undo.clear()
    M.installed = False
    M.sink = None
