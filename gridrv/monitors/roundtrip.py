"""Copies of library objects: copy.copy, copy.deepcopy and a pickle round trip.

A library object that went through one of these (multiprocessing, joblib, a saved session, a defensive copy in
user code) is still "the grid / rule / transform that was built with these arguments": every clause a property states
about a freshly constructed object is stated about its copies as well.  The property modules therefore hand the
clones to the same post-conditions as the original.  On the unchanged tree every public class round-trips
(probed for all rule classes, transforms, AngularGrid, AtomGrid, MolGrid, UniformGrid, Tensor1DGrids, PeriodicGrid,
LocalGrid, BeckeWeights, HirshfeldWeights), so an exception raised while cloning is a library exception.
"""

from __future__ import annotations

import copy
import pickle

KINDS = ("copy", "deepcopy", "pickle", "pickle2")


def clone(obj, kind):
    if kind == "copy":
        return copy.copy(obj)
    if kind == "deepcopy":
        return copy.deepcopy(obj)
    if kind == "pickle":
        return pickle.loads(pickle.dumps(obj))
    if kind == "pickle2":
        return pickle.loads(pickle.dumps(obj, protocol=2))
    raise ValueError(kind)


def clones(obj, kinds=KINDS):
    """Yield (kind, clone).  Exceptions propagate: cloning works for every class on the unchanged tree."""
    for k in kinds:
        yield k, clone(obj, k)


def pick(rng, n=1, kinds=KINDS):
    """n kinds drawn without replacement by the case's generator."""
    idx = rng.permutation(len(kinds))[:n]
    return [kinds[int(i)] for i in idx]
