"""Copies of library objects: copy.copy, copy.deepcopy and a pickle round trip.

A library object that went through one of these (multiprocessing, joblib, a saved session, a defensive copy in
user code) is still "the grid / rule / transform that was built with these arguments": every clause a property states
about a freshly constructed object is stated about its copies as well.  The property modules therefore hand the
clones to the same post-conditions as the original.  On the unchanged tree every public class round-trips
(probed for all rule classes, transforms, AngularGrid, AtomGrid, MolGrid, UniformGrid, Tensor1DGrids, PeriodicGrid,
LocalGrid, BeckeWeights, HirshfeldWeights), so an exception raised while cloning is a library exception.
"""

from __future__ import annotations

import copy
import pickle

KINDS = ("copy", "deepcopy", "pickle", "pickle2")


def clone(obj, kind):
    if kind == "copy":
        return copy.copy(obj)
    if kind == "deepcopy":
        return copy.deepcopy(obj)
    if kind == "pickle":
        return pickle.loads(pickle.dumps(obj))
    if kind == "pickle2":
        return pickle.loads(pickle.dumps(obj, protocol=2))
    raise ValueError(kind)


def clones(obj, kinds=KINDS):
    """Yield (kind, clone).  Exceptions propagate: cloning works for every class on the unchanged tree."""
    for k in kinds:
        yield k, clone(obj, k)


def pick(rng, n=1, kinds=KINDS):
    """n kinds drawn without replacement by the case's generator."""
    idx = rng.permutation(len(kinds))[:n]
    return [kinds[int(i)] for i in idx]


# ---------------------------------------------------------------------- generic comparison of a clone with its original
def _digest(v, depth):
    import hashlib

    import numpy as np

    if isinstance(v, np.ndarray):
        return ("ndarray", str(v.dtype), tuple(v.shape), hashlib.blake2b(np.ascontiguousarray(v).tobytes(), digest_size=8).hexdigest())
    if isinstance(v, (bool, int, float, complex, str, bytes, type(None), np.generic)):
        return ("scalar", type(v).__name__, repr(v))
    if isinstance(v, (list, tuple)):
        return (type(v).__name__, tuple(_digest(x, depth) for x in v))
    if isinstance(v, dict):
        return ("dict", tuple(sorted((repr(k), _digest(x, depth)) for k, x in v.items())))
    if type(v).__module__.startswith("grid.") and depth > 0:
        return ("object", type(v).__name__, tuple(sorted(public_state(v, depth - 1).items())))
    return ("opaque", type(v).__name__)


def public_state(obj, depth=2):
    """{public property or public instance attribute name: digest}: arrays by dtype/shape/bytes, scalars by repr, library
    objects recursively.  Properties that raise are recorded as such (same on both sides for an honest copy)."""
    names = {n for n in dir(type(obj)) if not n.startswith("_") and isinstance(getattr(type(obj), n, None), property)}
    names |= {n for n in getattr(obj, "__dict__", {}) if not n.startswith("_")}  # private storage is the library's business
    out = {}
    for n in sorted(names):
        if n == "kdtree":  # lazily built search tree: no public state of its own
            continue
        try:
            out[n] = _digest(getattr(obj, n), depth)
        except Exception as exc:  # noqa: BLE001
            out[n] = ("raised", type(exc).__name__)
    return out


def check_clone(ctx, subject, obj, kind, clause="clone-equals-original"):
    """Clone ``obj`` and compare every public property / instance attribute with the original; the original must be
    unchanged by the cloning.  Returns the clone (so that the caller can push it through its own post-conditions)."""
    before = public_state(obj)
    with ctx.guard(clause, f"{subject}:{kind}", sig_prefix="raised-while-cloning") as g:
        c = clone(obj, kind)
        after = public_state(obj)
        st = public_state(c)
        diff = sorted(k for k in set(before) | set(st) if before.get(k) != st.get(k))
        ctx.check(clause, f"{subject}:{kind}", type(c) is type(obj) and not diff, sig=("clone-differs:" + (diff[0] if diff else "type")), detail={"differing": diff[:6]})
        changed = sorted(k for k in before if before[k] != after.get(k))
        ctx.check("original-unchanged-by-cloning", f"{subject}:{kind}", not changed, sig="original-changed:" + (changed[0] if changed else ""), detail={"changed": changed[:6]})
        ctx.hit("clone:" + kind)
        return c
    return None
