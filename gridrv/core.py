"""Core of the runtime-monitoring framework for theochem/grid.

One property = one module ``gridrv.props.cNN`` exposing

    PROP            "C01"
    TITLE           short text
    REQUIRED_HOOKS  list of hook names that must have fired (else INCONCLUSIVE)
    RULE            text: how cases are generated / what is non-trivial
    LEVEL_TEXT, ASSUMPTIONS
    def cases(tier, seed) -> list of (family, params[, cost])
    def run_case(ctx, family, params) -> None       (calls the REAL library, feeds ctx.check)
    def setup(ctx) -> None (optional: install monitors on the real API, oracle self-tests)

The runner shards the case list over worker subprocesses, merges their
aggregates and decides the three-valued verdict.
"""

from __future__ import annotations

import fnmatch
import hashlib
import json
import math
import os
import sys
import time
import traceback
import zlib

import numpy as np

VERIF = os.path.dirname(os.path.dirname(os.path.abspath(__file__)))
REPO = os.environ.get("GRID_REPO", "/repo")
SRC = os.path.join(REPO, "src")
GRIDDIR = os.path.join(SRC, "grid")

MAX_FAIL_RECORDS = 6  # per (clause, subject, sig)
MAX_SAMPLES_PER_FAMILY = 2


def jsonable(x):
    """Convert numpy things to plain JSON values (for params / details)."""
    if isinstance(x, dict):
        return {str(k): jsonable(v) for k, v in x.items()}
    if isinstance(x, (list, tuple)):
        return [jsonable(v) for v in x]
    if isinstance(x, np.ndarray):
        if x.size > 24:
            return {"shape": list(x.shape), "head": jsonable(x.ravel()[:8].tolist())}
        return jsonable(x.tolist())
    if isinstance(x, (np.integer,)):
        return int(x)
    if isinstance(x, (np.floating,)):
        x = float(x)
    if isinstance(x, float):
        if math.isnan(x):
            return "nan"
        if math.isinf(x):
            return "inf" if x > 0 else "-inf"
        return x
    if isinstance(x, (np.bool_,)):
        return bool(x)
    if isinstance(x, (str, int, bool)) or x is None:
        return x
    return repr(x)[:200]


def case_id(family, params):
    return json.dumps([family, jsonable(params)], sort_keys=True, separators=(",", ":"))


def case_hash(cid):
    return hashlib.blake2b(cid.encode(), digest_size=8).hexdigest()


def case_rng(seed, cid, extra=0):
    return np.random.default_rng([int(seed) & 0xFFFFFFFF, zlib.crc32(cid.encode()), extra])


def is_library_exception(exc):
    """True when some frame of the traceback is inside <repo>/src/grid (not tests)."""
    tb = exc.__traceback__
    while tb is not None:
        fn = tb.tb_frame.f_code.co_filename
        if fn.startswith(GRIDDIR) and "/tests/" not in fn:
            return True
        tb = tb.tb_next
    return False


def short_tb(exc, n=6):
    frames = traceback.extract_tb(exc.__traceback__)[-n:]
    return [f"{os.path.relpath(f.filename, REPO) if f.filename.startswith(REPO) else os.path.basename(f.filename)}:{f.lineno}:{f.name}" for f in frames]


class MonitorError(Exception):
    """Raised by harness code that detects its own malfunction (-> inconclusive)."""


class Ctx:
    """Per-worker recording context handed to ``run_case`` and to monitors."""

    def __init__(self, prop, tier, seed):
        self.prop = prop
        self.tier = tier
        self.seed = seed
        self.clauses = {}  # clause -> {"n":, "fail":, "max":, "tol":, "argmax":}
        self.failures = {}  # (clause, subject, sig) -> {"count":, "records": []}
        self.hooks = {}  # hook name -> count
        self.cases_run = 0
        self.case_hashes = set()
        self.nontrivial_hashes = set()
        self.families = {}  # family -> {"n":, "nontrivial":, "discarded":, "rejected":}
        self.samples = []
        self.monitor_errors = []
        self.notes = {}  # free counters / observations
        self.observations = []  # recorded-not-decided
        self._case = None
        self._case_checks = 0
        self._case_fail = 0
        self._trivial = False
        self._case_samples = None
        self.rng = None
        self.deadline = None

    # ------------------------------------------------------------------ cases
    def begin_case(self, family, params):
        cid = case_id(family, params)
        self._case = {"family": family, "params": jsonable(params), "id": cid}
        self._case_checks = 0
        self._case_fail = 0
        self._trivial = False
        self._discarded = None
        self._case_notes = {}
        self.rng = case_rng(self.seed, cid)
        return cid

    def end_case(self):
        c = self._case
        h = case_hash(c["id"])
        fam = self.families.setdefault(c["family"], {"n": 0, "nontrivial": 0, "discarded": 0, "checks": 0})
        fam["n"] += 1
        fam["checks"] += self._case_checks
        self.cases_run += 1
        self.case_hashes.add(h)
        if self._discarded:
            fam["discarded"] += 1
        elif not self._trivial and self._case_checks > 0:
            fam["nontrivial"] += 1
            self.nontrivial_hashes.add(h)
        if sum(1 for s in self.samples if s["family"] == c["family"]) < MAX_SAMPLES_PER_FAMILY:
            s = {"family": c["family"], "params": c["params"], "checks": self._case_checks, "failed_checks": self._case_fail}
            if self._case_notes:
                s["observed"] = jsonable(self._case_notes)
            if self._discarded:
                s["discarded"] = self._discarded
            self.samples.append(s)
        self._case = None

    def trivial(self):
        """Mark the current case as trivial (does not count as distinct_nontrivial)."""
        self._trivial = True

    def discard(self, why):
        """Current case could not be decided (solver did not converge, inadmissible input)."""
        self._discarded = str(why)[:200]
        self.count("discarded:" + str(why)[:60])

    def case_note(self, key, value):
        self._case_notes[key] = value

    # ------------------------------------------------------------------ checks
    def hit(self, hook, n=1):
        self.hooks[hook] = self.hooks.get(hook, 0) + n

    def count(self, key, n=1):
        self.notes[key] = self.notes.get(key, 0) + n

    def observe(self, text, **kw):
        """Record something that is deliberately NOT decided."""
        if len(self.observations) < 40:
            self.observations.append({"what": text, **jsonable(kw)})
        self.count("observation:" + text[:50])

    def check(self, clause, subject, measure, tol=0.0, sig=None, detail=None):
        """Record one evaluation of an oracle: ok iff measure <= tol (NaN fails).

        ``measure`` may also be a bool (True = ok).
        """
        if isinstance(measure, (bool, np.bool_)):
            ok = bool(measure)
            m = 0.0 if ok else float("inf")
        else:
            m = float(measure)
            ok = m <= tol  # NaN -> False
        st = self.clauses.get(clause)
        if st is None:
            st = self.clauses[clause] = {"n": 0, "fail": 0, "max": 0.0, "tol": tol, "argmax": None}
        st["n"] += 1
        self._case_checks += 1
        if ok:
            if m > st["max"]:
                st["max"] = m
                st["argmax"] = subject
            if tol and tol > st["tol"]:
                st["tol"] = tol
            return True
        st["fail"] += 1
        self._case_fail += 1
        self.fail(clause, subject, sig or "mismatch", measure=m, tol=tol, detail=detail, _counted=True)
        return False

    def fail(self, clause, subject, sig, measure=None, tol=None, detail=None, _counted=False):
        if not _counted:
            st = self.clauses.setdefault(clause, {"n": 0, "fail": 0, "max": 0.0, "tol": tol or 0.0, "argmax": None})
            st["n"] += 1
            st["fail"] += 1
            self._case_checks += 1
            self._case_fail += 1
        key = (clause, str(subject), str(sig))
        f = self.failures.setdefault(key, {"count": 0, "records": []})
        f["count"] += 1
        if len(f["records"]) < MAX_FAIL_RECORDS:
            f["records"].append(
                {
                    "clause": clause,
                    "subject": str(subject),
                    "sig": str(sig),
                    "measure": jsonable(measure),
                    "tol": jsonable(tol),
                    "detail": jsonable(detail),
                    "case": {"family": self._case["family"], "params": self._case["params"]} if self._case else None,
                }
            )

    def guard(self, clause, subject, sig_prefix="raised"):
        """Context manager: an exception escaping the block from library code is a violation
        of ``clause``; from harness code it is a monitor error."""
        return _Guard(self, clause, subject, sig_prefix)

    def monitor_error(self, where, exc):
        if len(self.monitor_errors) < 20:
            self.monitor_errors.append({"where": where, "error": f"{type(exc).__name__}: {exc}"[:300], "tb": short_tb(exc), "case": self._case and {"family": self._case["family"], "params": self._case["params"]}})
        self.count("monitor_error")

    # ------------------------------------------------------------------ output
    def dump(self):
        return {
            "prop": self.prop,
            "clauses": self.clauses,
            "failures": [{"key": list(k), **v} for k, v in self.failures.items()],
            "hooks": self.hooks,
            "cases_run": self.cases_run,
            "case_hashes": sorted(self.case_hashes),
            "nontrivial_hashes": sorted(self.nontrivial_hashes),
            "families": self.families,
            "samples": self.samples,
            "monitor_errors": self.monitor_errors,
            "notes": self.notes,
            "observations": self.observations,
        }


class _Guard:
    def __init__(self, ctx, clause, subject, sig_prefix):
        self.ctx, self.clause, self.subject, self.sig_prefix = ctx, clause, subject, sig_prefix
        self.ok = True

    def __enter__(self):
        return self

    def __exit__(self, et, ev, tb):
        if ev is None:
            return False
        if isinstance(ev, (KeyboardInterrupt, SystemExit, MemoryError)):
            return False
        if isinstance(ev, MonitorError) or not is_library_exception(ev):
            return False  # propagate: harness problem
        self.ok = False
        self.ctx.fail(self.clause, self.subject, f"{self.sig_prefix}:{type(ev).__name__}", detail={"error": str(ev)[:300], "tb": short_tb(ev)})
        return True


# ---------------------------------------------------------------------- reach
class Reach:
    """sys.monitoring recorder: which functions of grid/*.py were entered (first hit only)."""

    def __init__(self):
        self.seen = set()
        self.on = False

    def start(self):
        mon = getattr(sys, "monitoring", None)
        if mon is None:
            return
        try:
            mon.use_tool_id(3, "gridrv-reach")
        except ValueError:
            return
        prefix = GRIDDIR + os.sep

        def cb(code, offset):
            fn = code.co_filename
            if fn.startswith(prefix) and "/tests/" not in fn:
                self.seen.add(f"{os.path.basename(fn)}:{code.co_qualname}")
            return mon.DISABLE

        mon.register_callback(3, mon.events.PY_START, cb)
        mon.set_events(3, mon.events.PY_START)
        self.on = True

    def result(self):
        return sorted(self.seen)


# ------------------------------------------------------------------ findings
def load_known_findings():
    p = os.path.join(VERIF, "known_findings.json")
    with open(p) as fh:
        return json.load(fh)["findings"]


def match_finding(entries, prop, clause, subject, sig):
    for e in entries:
        if e.get("status") != "open" or e["property"] != prop:
            continue
        if e["clause"] != clause:
            continue
        if not fnmatch.fnmatchcase(subject, e["subject"]):
            continue
        if not fnmatch.fnmatchcase(sig, e["sig"]):
            continue
        return e
    return None
