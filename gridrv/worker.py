"""Worker process: runs a slice of the cases of one property against the real library."""

from __future__ import annotations

import argparse
import faulthandler
import importlib
import json
import os
import sys
import time
import warnings


def order_cases(cases):
    """Deterministic cost-aware order: pinned first, then by cost descending (stable)."""
    norm = []
    for i, c in enumerate(cases):
        fam, params = c[0], c[1]
        cost = float(c[2]) if len(c) > 2 else 1.0
        norm.append((fam, params, cost, i))
    norm.sort(key=lambda t: (-t[2], t[3]))
    return norm


def main(argv=None):
    ap = argparse.ArgumentParser()
    ap.add_argument("--prop", required=True)
    ap.add_argument("--tier", required=True)
    ap.add_argument("--seed", type=int, required=True)
    ap.add_argument("--shard", type=int, default=0)
    ap.add_argument("--nshards", type=int, default=1)
    ap.add_argument("--out", required=True)
    ap.add_argument("--budget", type=float, default=1e9)
    ap.add_argument("--replay", default=None)
    ap.add_argument("--subsample", type=int, default=1, help="run every K-th case only (second pass under python -O)")
    a = ap.parse_args(argv)

    faulthandler.enable()
    warnings.simplefilter("ignore")
    t0 = time.time()

    from gridrv import core

    import grid  # the real library, from the working tree

    gf = os.path.realpath(grid.__file__)
    if not gf.startswith(os.path.realpath(core.GRIDDIR)):
        print(f"worker: grid imported from {gf}, expected {core.GRIDDIR}", file=sys.stderr)
        sys.exit(3)

    import numpy as np

    np.random.seed(a.seed & 0xFFFFFFFF)
    mod = importlib.import_module(f"gridrv.props.{a.prop.lower()}")
    ctx = core.Ctx(a.prop, a.tier, a.seed)
    reach = core.Reach()
    reach.start()

    setup_error = None
    if hasattr(mod, "setup"):
        try:
            mod.setup(ctx)
        except Exception as exc:  # oracle self-test failed etc.
            setup_error = f"{type(exc).__name__}: {exc}"
            ctx.monitor_error("setup", exc)

    if a.replay:
        with open(a.replay) as fh:
            rp = json.load(fh)
        mine = [(rp["case"]["family"], rp["case"]["params"], 1.0, 0)]
    else:
        allc = order_cases(mod.cases(a.tier, a.seed))
        if a.subsample > 1:
            allc = allc[a.seed % a.subsample :: a.subsample]
        mine = allc[a.shard :: a.nshards]

    skipped = 0
    if setup_error is None:
        for fam, params, cost, _ in mine:
            if time.time() - t0 > a.budget and cost < 1e8:
                skipped += 1
                continue
            ctx.begin_case(fam, params)
            try:
                mod.run_case(ctx, fam, params)
            except (KeyboardInterrupt, SystemExit):
                raise
            except core.MonitorError as exc:
                ctx.monitor_error("run_case", exc)
            except Exception as exc:
                if core.is_library_exception(exc):
                    ctx.fail("no-exception", fam, f"raised:{type(exc).__name__}", detail={"error": str(exc)[:300], "tb": core.short_tb(exc)})
                else:
                    ctx.monitor_error("run_case", exc)
            ctx.end_case()

    if hasattr(mod, "finish"):
        try:
            mod.finish(ctx)
        except Exception as exc:
            ctx.monitor_error("finish", exc)

    out = ctx.dump()
    out["pymode"] = "optimized" if sys.flags.optimize else "default"
    for f in out["failures"]:
        for rec in f["records"]:
            rec["pymode"] = out["pymode"]
    out["skipped_budget"] = skipped
    out["assigned"] = len(mine)
    out["reach"] = reach.result()
    out["wall_s"] = time.time() - t0
    out["grid_file"] = gf
    with open(a.out, "w") as fh:
        json.dump(out, fh)


if __name__ == "__main__":
    main()
