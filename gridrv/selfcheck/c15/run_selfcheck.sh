#!/bin/bash
# Sensitivity self-check of C15: apply each seeded break to a scratch worktree of /repo, run the quick check against it
# (must exit 1 with VIOLATION lines) and the repository's own tests of the touched module (do they notice?).
# usage: run_selfcheck.sh <worktree-dir> <jobs> <result.tsv> diff...
set -u
WT=$1; JOBS=$2; OUT=$3; shift 3
HERE=$(cd "$(dirname "$0")" && pwd)
VERIF=$(cd "$HERE/../../.." && pwd)
[ -d "$WT" ] || git -C /repo worktree add --detach "$WT" HEAD >/dev/null 2>&1
for d in "$@"; do
  d=$(realpath "$d")
  name=$(basename "$d" .diff)
  git -C "$WT" checkout -- . && git -C "$WT" apply "$d" || { echo -e "$name\tAPPLY-FAILED" >> "$OUT"; continue; }
  log=/tmp/c15-selfcheck-$name.log
  (cd "$VERIF" && GRID_REPO="$WT" ./check C15 --tier quick --jobs "$JOBS" > "$log" 2>&1); rc=$?
  nviol=$(grep -c '^VIOLATION' "$log")
  clauses=$(grep -o 'clause=[a-z-]*' "$log" | sort | uniq -c | sort -rn | awk '{printf "%s(%s) ", $2, $1}' | sed 's/clause=//g')
  tests="src/grid/tests/test_ode.py"
  case "$name" in r1_*) tests="src/grid/tests/test_rtransform.py src/grid/tests/test_ode.py";; esac
  suite=$(cd "$WT" && PYTHONPATH="$WT/src" /venv/bin/python -m pytest -q -x -p no:cacheprovider $tests -n 4 2>&1 | tail -1)
  echo -e "$name\texit=$rc\tviolation_groups_printed=$nviol\t$clauses\tsuite: $suite" >> "$OUT"
  git -C "$WT" checkout -- .
done
