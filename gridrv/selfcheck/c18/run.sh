#!/bin/bash
# Apply every seeded break of this directory to a scratch worktree of /repo, run the quick check (expects VIOLATION, exit 1)
# and the repository's own tests that concern the module.  usage: [SUITE=0] run.sh [jobs] [patch-name ...]
set -u
PROP=C18; DIR=$(cd "$(dirname "$0")" && pwd); WT=/tmp/wt-selfcheck-c18; JOBS=${1:-8}; shift || true
TESTS="src/grid/tests/test_ngrid.py"; KEXPR="test"
git -C /repo worktree add --detach $WT HEAD >/dev/null 2>&1 || git -C $WT checkout -- .
names=${@:-$(cd $DIR && ls *.diff | grep -v '^candidate_fix' | sed 's/\.diff$//')}
for n in $names; do
  git -C $WT checkout -- . ; git -C $WT apply $DIR/$n.diff || { echo "$n: PATCH DOES NOT APPLY"; continue; }
  out=$(cd /verif && GRID_REPO=$WT ./check $PROP --tier quick --jobs $JOBS 2>&1); rc=$?
  clauses=$(echo "$out" | grep -A1 '^VIOLATION' | grep -o 'clause=[^ ]*' | sort | uniq -c | awk '{printf "%s(x%s) ", $2, $1}')
  suite="(skipped: SUITE=0)"
  [ "${SUITE:-1}" = 1 ] && suite=$(cd $WT && OMP_NUM_THREADS=1 OPENBLAS_NUM_THREADS=1 MKL_NUM_THREADS=1 PYTHONDONTWRITEBYTECODE=1 PYTHONPATH=$WT/src timeout 3000 /venv/bin/python -m pytest -q -x -p no:cacheprovider $TESTS -k "$KEXPR" -n ${SUITE_JOBS:-4} 2>&1 | tail -1)
  echo "$n | check rc=$rc | $clauses| suite: $suite"
done
git -C $WT checkout -- . ; git -C /repo worktree remove --force $WT
