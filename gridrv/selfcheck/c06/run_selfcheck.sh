#!/bin/bash
# usage: run_selfcheck.sh <verif-dir> <patch.diff> [jobs]   -> prints one summary line; full log in /tmp/c06-selfcheck/<name>.log
# Applies the patch to a private worktree of /repo, runs the C06 quick check against it and the repository's own
# tests of the touched module.  <verif-dir> must contain known_findings.json with the C06 entries merged, otherwise the
# open Hirshfeld finding already prints VIOLATION.
set -u
VERIF="$1"; PATCH="$2"; JOBS="${3:-8}"
name="$(basename "$PATCH" .diff)"
wt="/tmp/wt-c06-$name"; logdir=/tmp/c06-selfcheck; mkdir -p "$logdir"
git -C /repo worktree remove --force "$wt" >/dev/null 2>&1
git -C /repo worktree add --detach "$wt" HEAD >/dev/null 2>&1 || { echo "$name: cannot create worktree"; exit 3; }
git -C "$wt" apply "$PATCH" || { echo "$name: patch does not apply"; exit 3; }
( cd "$VERIF" && GRID_REPO="$wt" ./check C06 --tier quick --jobs "$JOBS" ) > "$logdir/$name.log" 2>&1
rc=$?
clauses=$(grep -A1 '^VIOLATION' "$logdir/$name.log" | grep -o 'clause=[^ ]* subject=.* sig=[^ ]*' | sed 's/ subject=/|/; s/ sig=/|/; s/clause=//' | sort | uniq | head -12 | tr '\n' ';')
if grep -q hirshfeld "$PATCH"; then tests="src/grid/tests/test_molgrid.py -k hirshfeld"; else tests="src/grid/tests/test_becke.py"; fi
( cd "$wt" && PYTHONPATH="$wt/src" /venv/bin/python -m pytest -q -x -p no:cacheprovider $tests -n 2 ) > "$logdir/$name.pytest.log" 2>&1
prc=$?
echo "$name | check rc=$rc | suite rc=$prc ($(tail -1 "$logdir/$name.pytest.log")) | $clauses"
git -C /repo worktree remove --force "$wt" >/dev/null 2>&1
