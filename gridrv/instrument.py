"""Attach monitors to the real API without editing the repository.

``wrap_method(cls, name, post)`` replaces ``cls.name`` by a wrapper that calls
the original and then ``post(result, exc, self, args, kwargs)`` (exceptions in
``post`` are recorded as monitor errors and never alter the call).
``wrap_function(module, name, post)`` does the same for a module-level function
and patches EVERY binding of it in the already imported ``grid.*`` modules
(``from grid.utils import f`` copies would otherwise bypass the monitor).
"""

from __future__ import annotations

import functools
import sys

_installed = {}
_depth = {"n": 0}


def _make(orig, post, ctx, hook, outermost_only):
    @functools.wraps(orig)
    def wrapper(*args, **kwargs):
        _depth["n"] += 1
        try:
            try:
                res = orig(*args, **kwargs)
            except BaseException as exc:
                _depth["n"] -= 1
                try:
                    if not outermost_only or _depth["n"] == 0:
                        ctx.hit(hook + ":raised")
                        post(None, exc, args, kwargs)
                except Exception as mexc:  # noqa
                    ctx.monitor_error("post:" + hook, mexc)
                _depth["n"] += 1
                raise
        finally:
            _depth["n"] -= 1
        if not outermost_only or _depth["n"] == 0:
            ctx.hit(hook)
            try:
                post(res, None, args, kwargs)
            except Exception as mexc:
                ctx.monitor_error("post:" + hook, mexc)
        return res

    wrapper.__gridrv_orig__ = orig
    return wrapper


def wrap_method(ctx, cls, name, post, hook=None, outermost_only=False):
    hook = hook or f"{cls.__name__}.{name}"
    key = (cls, name)
    if key in _installed:
        return
    raw = cls.__dict__[name]
    if isinstance(raw, (classmethod, staticmethod)):
        fn = raw.__func__
        w = _make(fn, post, ctx, hook, outermost_only)
        setattr(cls, name, type(raw)(w))
    else:
        setattr(cls, name, _make(raw, post, ctx, hook, outermost_only))
    _installed[key] = raw


def wrap_function(ctx, module, name, post, hook=None, outermost_only=False):
    hook = hook or f"{module.__name__.split('.')[-1]}.{name}"
    orig = getattr(module, name)
    if getattr(orig, "__gridrv_orig__", None) is not None:
        return
    w = _make(orig, post, ctx, hook, outermost_only)
    n = 0
    for mname, m in list(sys.modules.items()):
        if m is None or not (mname == "grid" or mname.startswith("grid.")):
            continue
        for attr, val in list(vars(m).items()):
            if val is orig:
                setattr(m, attr, w)
                n += 1
    _installed[(module.__name__, name)] = orig
    return n
