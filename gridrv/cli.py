"""./check <Cxx> [--tier quick|thorough] [--replay PATH] [--jobs N]

Spawns worker subprocesses that drive the REAL library (imported from
$GRID_REPO/src, default /repo/src) under the monitors of the property, merges
their aggregates, decides  held (0) / VIOLATION (1) / INCONCLUSIVE (2)  and
writes /verif/evidence/<id>.json.
"""

from __future__ import annotations

import argparse
import hashlib
import importlib
import json
import os
import shutil
import subprocess
import sys
import tempfile
import time

from gridrv import core

PY = "/venv/bin/python"
OPT_STRIDE = 4


def worker_env():
    env = dict(os.environ)
    env["PYTHONPATH"] = core.SRC + os.pathsep + core.VERIF
    env["PYTHONDONTWRITEBYTECODE"] = "1"
    env["PYTHONHASHSEED"] = "0"
    env["GRID_VERIF"] = "1"
    env["GRID_REPO"] = core.REPO
    for k in ("OMP_NUM_THREADS", "OPENBLAS_NUM_THREADS", "MKL_NUM_THREADS", "NUMEXPR_NUM_THREADS"):
        env[k] = "1"
    return env


def run_workers(prop, tier, seed, jobs, budget, replay, workdir):
    env = worker_env()
    procs = []
    n = 1 if replay else jobs
    # second pass: every OPT_STRIDE-th case again under "python -O" (asserts and "if __debug__:" blocks stripped);
    # the properties do not depend on the interpreter flag, the library may (seeded change adv5-c02-2)
    nopt = 0 if replay else max(1, jobs // OPT_STRIDE)
    replay_opt = False
    if replay:
        with open(replay) as fh:
            replay_opt = json.load(fh).get("record", {}).get("pymode") == "optimized"
    for i in range(n + nopt):
        out = os.path.join(workdir, f"w{i}.json")
        if i < n:
            cmd = [PY] + (["-O"] if replay_opt else []) + ["-m", "gridrv.worker", "--prop", prop, "--tier", tier, "--seed", str(seed), "--shard", str(i), "--nshards", str(n), "--out", out, "--budget", str(budget)]
        else:
            cmd = [PY, "-O", "-m", "gridrv.worker", "--prop", prop, "--tier", tier, "--seed", str(seed), "--shard", str(i - n), "--nshards", str(nopt), "--subsample", str(OPT_STRIDE), "--out", out, "--budget", str(budget)]
        if replay:
            cmd += ["--replay", replay]
        log = open(os.path.join(workdir, f"w{i}.log"), "w")
        procs.append((i, subprocess.Popen(cmd, env=env, cwd=core.VERIF, stdout=log, stderr=subprocess.STDOUT), out, log))
    watchdog = budget * 3 + 300
    t0 = time.time()
    results, problems = [], []
    for i, p, out, log in procs:
        left = max(1.0, watchdog - (time.time() - t0))
        try:
            rc = p.wait(timeout=left)
        except subprocess.TimeoutExpired:
            p.kill()
            p.wait()
            rc = "watchdog"
        log.close()
        if rc == 0 and os.path.exists(out):
            with open(out) as fh:
                results.append(json.load(fh))
        else:
            with open(os.path.join(workdir, f"w{i}.log")) as fh:
                tail = fh.read()[-1500:]
            problems.append({"worker": i, "rc": rc, "log_tail": tail})
    return results, problems


def merge(results):
    m = {"clauses": {}, "failures": {}, "hooks": {}, "cases_run": 0, "case_hashes": set(), "nontrivial_hashes": set(), "families": {}, "samples": [], "monitor_errors": [], "notes": {}, "observations": [], "skipped_budget": 0, "assigned": 0, "reach": set(), "worker_wall": [], "modes": {}}
    for r in results:
        m["modes"][r.get("pymode", "default")] = m["modes"].get(r.get("pymode", "default"), 0) + r["cases_run"]
        for c, st in r["clauses"].items():
            d = m["clauses"].setdefault(c, {"n": 0, "fail": 0, "max": 0.0, "tol": st["tol"], "argmax": None})
            d["n"] += st["n"]
            d["fail"] += st["fail"]
            if st["max"] > d["max"]:
                d["max"], d["argmax"] = st["max"], st["argmax"]
            d["tol"] = max(d["tol"] or 0, st["tol"] or 0)
        for f in r["failures"]:
            k = tuple(f["key"])
            d = m["failures"].setdefault(k, {"count": 0, "records": []})
            d["count"] += f["count"]
            d["records"] += f["records"][: max(0, core.MAX_FAIL_RECORDS - len(d["records"]))]
        for h, c in r["hooks"].items():
            m["hooks"][h] = m["hooks"].get(h, 0) + c
        for k, c in r["notes"].items():
            m["notes"][k] = m["notes"].get(k, 0) + c
        m["cases_run"] += r["cases_run"]
        m["case_hashes"].update(r["case_hashes"])
        m["nontrivial_hashes"].update(r["nontrivial_hashes"])
        for fam, st in r["families"].items():
            d = m["families"].setdefault(fam, {"n": 0, "nontrivial": 0, "discarded": 0, "checks": 0})
            for k in d:
                d[k] += st.get(k, 0)
        for s in r["samples"]:
            if sum(1 for t in m["samples"] if t["family"] == s["family"]) < core.MAX_SAMPLES_PER_FAMILY:
                m["samples"].append(s)
        m["monitor_errors"] += r["monitor_errors"]
        m["observations"] += r["observations"]
        m["skipped_budget"] += r["skipped_budget"]
        m["assigned"] += r["assigned"]
        m["reach"].update(r["reach"])
        m["worker_wall"].append(round(r["wall_s"], 1))
    return m


def main(argv=None):
    ap = argparse.ArgumentParser(prog="check")
    ap.add_argument("prop")
    ap.add_argument("--tier", default=os.environ.get("VERIF_TIER") or "quick", choices=["quick", "thorough"])
    ap.add_argument("--replay", default=None)
    ap.add_argument("--jobs", type=int, default=int(os.environ.get("VERIF_JOBS", "16")))
    ap.add_argument("--keep", action="store_true", help="keep worker outputs")
    a = ap.parse_args(argv)
    prop = a.prop.upper()
    seed = int(os.environ.get("VERIF_SEED", "0") or 0)
    t0 = time.time()

    sys.path.insert(0, core.VERIF)
    mod = importlib.import_module(f"gridrv.props.{prop.lower()}")
    budget = getattr(mod, "BUDGET", {"quick": 300, "thorough": 3000})[a.tier]
    jobs = min(a.jobs, getattr(mod, "MAX_JOBS", 16))

    os.makedirs(os.path.join(core.VERIF, ".work"), exist_ok=True)
    workdir = tempfile.mkdtemp(prefix=f"{prop}-", dir=os.path.join(core.VERIF, ".work"))
    try:
        results, problems = run_workers(prop, a.tier, seed, jobs, budget, a.replay, workdir)
    finally:
        if not a.keep:
            shutil.rmtree(workdir, ignore_errors=True)
    m = merge(results)
    wall = time.time() - t0

    # ------------------------------------------------------------ verdict
    findings = core.load_known_findings()
    violations, known = [], {}
    for (clause, subject, sig), f in sorted(m["failures"].items()):
        e = core.match_finding(findings, prop, clause, subject, sig)
        if e is not None:
            k = known.setdefault(e["id"], {"entry": e, "count": 0, "subjects": set()})
            k["count"] += f["count"]
            k["subjects"].add(subject)
        else:
            violations.append(((clause, subject, sig), f))

    inconclusive = []
    if problems:
        inconclusive.append(f"{len(problems)} worker(s) died or hit the watchdog: " + "; ".join(f"w{p['worker']} rc={p['rc']}" for p in problems))
    if m["monitor_errors"]:
        inconclusive.append(f"{len(m['monitor_errors'])} monitor error(s), first: {m['monitor_errors'][0]['where']}: {m['monitor_errors'][0]['error']}")
    if not a.replay:
        for h in getattr(mod, "REQUIRED_HOOKS", []):
            if m["hooks"].get(h, 0) == 0:
                inconclusive.append(f"required hook never reached: {h}")
        for fam in getattr(mod, "REQUIRED_FAMILIES", []):
            if m["families"].get(fam, {}).get("nontrivial", 0) == 0:
                inconclusive.append(f"required input family has no decided case: {fam}")
        maxdisc = getattr(mod, "MAX_DISCARD_FRACTION", 0.05)
        for fam, st in m["families"].items():
            if st["n"] >= 10 and st["discarded"] / st["n"] > maxdisc:
                inconclusive.append(f"family {fam}: {st['discarded']}/{st['n']} cases discarded (> {maxdisc:.0%})")
        if m["assigned"] and m["skipped_budget"] / m["assigned"] > 0.5:
            inconclusive.append(f"{m['skipped_budget']}/{m['assigned']} cases skipped for lack of time")
        if len(m["nontrivial_hashes"]) < 2:
            inconclusive.append("fewer than 2 distinct non-trivial cases decided")

    # ------------------------------------------------------------ replays
    lines = []
    rdir = os.path.join(core.VERIF, "replays", prop)
    for (clause, subject, sig), f in violations:
        rec = f["records"][0]
        h = hashlib.blake2b(json.dumps([clause, subject, sig, rec["case"]], sort_keys=True).encode(), digest_size=6).hexdigest()
        os.makedirs(rdir, exist_ok=True)
        path = os.path.join(rdir, f"{h}.json")
        with open(path, "w") as fh:
            json.dump({"property": prop, "tier": a.tier, "seed": seed, "clause": clause, "subject": subject, "sig": sig, "count": f["count"], "case": rec["case"], "record": rec, "replay_cmd": f"VERIF_SEED={seed} ./check {prop} --replay {path}"}, fh, indent=1)
        lines.append((path, clause, subject, sig, f["count"], rec))

    # ------------------------------------------------------------ evidence
    status = "violated" if violations else ("inconclusive" if inconclusive else "held")
    clauses = {c: {"evaluations": st["n"], "failed": st["fail"], "max_observed": st["max"], "tol": st["tol"], "worst_subject": st["argmax"]} for c, st in sorted(m["clauses"].items())}
    coverage = {
        "evaluations": int(m["cases_run"]),
        "distinct_nontrivial": len(m["nontrivial_hashes"]),
        "distinct_cases": len(m["case_hashes"]),
        "oracle_checks": int(sum(st["n"] for st in m["clauses"].values())),
        "rule": getattr(mod, "RULE", ""),
        "samples": m["samples"][:40] or [{"note": "no case was run"}],
        "verdict": status,
        "clauses": clauses,
        "hooks_fired": dict(sorted(m["hooks"].items())),
        "families": m["families"],
        "counters": dict(sorted(m["notes"].items())),
        "observations_not_decided": m["observations"][:40],
        "known_findings_observed": [{"id": k, "count": v["count"], "what": v["entry"]["what"]} for k, v in sorted(known.items())],
        "violations": [{"clause": l[1], "subject": l[2], "sig": l[3], "count": l[4], "replay": l[0]} for l in lines][:50],
        "inconclusive_reasons": inconclusive,
        "cases_skipped_for_time": int(m["skipped_budget"]),
        "library_functions_reached": sorted(m["reach"]),
        "workers": len(results),
        "cases_per_interpreter_mode": m["modes"],
        "worker_wall_s": m["worker_wall"],
        "repo": core.REPO,
        "exhaustive": bool(getattr(mod, "EXHAUSTIVE", {}).get(a.tier, False)) and m["skipped_budget"] == 0,
    }
    ev = {
        "property_id": prop,
        "tier": a.tier,
        "seed": seed,
        "level": "exploration",
        "coverage": coverage,
        "assumptions": getattr(mod, "ASSUMPTIONS", []),
        "wall_s": round(wall, 2),
        "violations": len(violations),
    }
    if not a.replay:
        os.makedirs(os.path.join(core.VERIF, "evidence"), exist_ok=True)
        tmp = os.path.join(core.VERIF, "evidence", f".{prop}.json.tmp")
        with open(tmp, "w") as fh:
            json.dump(ev, fh, indent=1)
        os.replace(tmp, os.path.join(core.VERIF, "evidence", f"{prop}.json"))

    # ------------------------------------------------------------ report
    print(f"[{prop}] tier={a.tier} seed={seed} repo={core.REPO} cases={m['cases_run']} distinct_nontrivial={len(m['nontrivial_hashes'])} oracle_checks={coverage['oracle_checks']} workers={len(results)} wall={wall:.1f}s")
    for c, st in clauses.items():
        print(f"  clause {c:<34} n={st['evaluations']:<8} failed={st['failed']:<6} max={st['max_observed']:.3g} tol={st['tol']:.3g}")
    if m["hooks"]:
        print("  hooks: " + ", ".join(f"{h}={c}" for h, c in sorted(m["hooks"].items())))
    for k, v in sorted(known.items()):
        print(f"KNOWN-FINDING: property={prop} {v['entry']['what']} [id={k}, seen {v['count']}x]")
    for e in findings:
        if e["property"] == prop and e.get("status") == "open" and e["id"] not in known and not a.replay:
            print(f"  note: open known finding {e['id']} was not reproduced in this run")
    for path, clause, subject, sig, count, rec in lines[:25]:
        print(f"VIOLATION property={prop} replay={path}")
        print(f"    clause={clause} subject={subject} sig={sig} count={count} measure={rec.get('measure')} tol={rec.get('tol')} case={json.dumps(rec.get('case'))[:300]}")
        if rec.get("detail"):
            print(f"    detail={json.dumps(rec['detail'])[:400]}")
    if len(lines) > 25:
        print(f"    ... and {len(lines) - 25} more violating (clause, subject, signature) groups, see evidence")
    if violations:
        sys.exit(1)
    if inconclusive:
        for r in inconclusive:
            print(f"INCONCLUSIVE property={prop} {r}")
        for p in problems[:3]:
            print(p["log_tail"])
        for me in m["monitor_errors"][:3]:
            print("  monitor error:", json.dumps(me)[:1200])
        sys.exit(2)
    print(f"HELD property={prop} on everything explored")
    sys.exit(0)


if __name__ == "__main__":
    main()
