#!/bin/bash
# setup_cmd: nothing to build (pure Python, no third-party installs); verify the interpreter and that grid imports from /repo/src.
set -e
cd "$(dirname "${BASH_SOURCE[0]}")"
mkdir -p evidence replays .work
export GRID_REPO="${GRID_REPO:-/repo}"
PYTHONPATH="$GRID_REPO/src:$PWD" PYTHONDONTWRITEBYTECODE=1 /venv/bin/python -W ignore - <<'PY'
import os, sys, numpy, scipy, mpmath, sympy
import grid
from gridrv import core
assert os.path.realpath(grid.__file__).startswith(os.path.realpath(core.GRIDDIR)), grid.__file__
print("setup ok: python", sys.version.split()[0], "numpy", numpy.__version__, "scipy", scipy.__version__, "grid from", grid.__file__)
PY
